"""C15 — synodic section detection finds every crossing once, on the plane, in order.

T-trace: `_hermite_scalar`, `_hermite_der` (poincare/utils.py) and the whole of `_refine_hits_cubic`,
`_refine_hits_linear`, `_crossing_indices_and_alpha` (synodic/backend.py) are *executed* on symbolic data and emitted
as `RE` terms in Gen/C15.lean; Props/C15.lean proves the derivative / interpolation / Newton / on-plane identities
about them.
T-corr: the hand model Core/C15.lean (detection over Q, Hermite pair plugged in from Gen/C15.lean by the driver) is
compared with the real `_SynodicDetectionBackend.detect_on_trajectory` — exactly on dyadic trajectories (all sign
patterns x directions x tolerances x refinements), to 1e-11 where float division rounds.
Numerics / failing-input search: an independent reading of the property on the real outputs (each compatible sign
change exactly one hit inside its interval, on the plane, ordered), convergence orders on analytic curves and a
CR3BP trajectory, cubic never worse than the linear interpolation bound."""
from __future__ import annotations

import itertools
import math
from fractions import Fraction

import numpy as np

import lean_emit as E
import tracer as T

F = Fraction

# --------------------------------------------------------------------------- tracing


class _SymArr(np.ndarray):
    """object ndarray whose `.astype(float)` keeps the symbols (the code calls it only to copy)"""

    def astype(self, *a, **k):
        return self.copy()

    def tolist(self):  # thit.tolist() in detect_on_trajectory
        return [x for x in np.asarray(self)]


def _symarr(vals):
    a = np.empty(len(vals), dtype=object)
    for i, v in enumerate(vals):
        a[i] = v
    return a.view(_SymArr)


def _ident_float(x):
    if isinstance(x, T.Sym):
        return x
    if isinstance(x, np.ndarray) and x.dtype == object and x.shape == ():
        return x.item()
    return float(x)


class _Shim(T.ShimNP):
    """array-aware minimum/maximum (np.minimum(1.0, np.maximum(0.0, alpha)) on arrays)"""

    def minimum(self, a, b):
        if T._has_sym(a) or T._has_sym(b):
            if isinstance(a, np.ndarray) or isinstance(b, np.ndarray):
                aa, bb = np.broadcast_arrays(np.asarray(a, dtype=object), np.asarray(b, dtype=object))
                out = np.empty(aa.shape, dtype=object)
                for idx in np.ndindex(aa.shape):
                    x, y = T.Sym.lift(aa[idx]), T.Sym.lift(bb[idx])
                    out[idx] = x if x <= y else y
                return out.view(_SymArr)
        return super().minimum(a, b)

    def maximum(self, a, b):
        r = super().maximum(a, b)
        return r.view(_SymArr) if isinstance(r, np.ndarray) and r.dtype == object else r

    def empty(self, shape, dtype=None):
        return super().empty(shape, float if dtype is _ident_float else dtype)

    def asarray(self, x, dtype=None):
        r = super().asarray(x, float if dtype is _ident_float else dtype)
        return r.view(_SymArr) if isinstance(r, np.ndarray) and r.dtype == object else r


HVARS = ["s", "y0", "y1", "d0", "d1", "dt"]


def trace_hermite():
    from hiten.algorithms.poincare import utils as U
    T.reset()
    vals = [0.3, -1.0, 2.0, 0.5, 0.7, 0.25]
    vs = [T.Sym.var(n, v) for n, v in zip(HVARS, vals)]
    h = T.retarget(U._hermite_scalar)(*vs)
    d = T.retarget(U._hermite_der)(*vs)
    return h, d


def trace_cubic(max_iter, k, N, sval=0.3):
    """Run the current `_refine_hits_cubic` on symbolic times/section values/states for crossing segment k of an
    N-sample trajectory, Newton limited to `max_iter` updates.  Returns (th, xh) Syms."""
    from hiten.algorithms.poincare.synodic import backend as B
    T.reset()
    tv = [0.0, 1.0, 2.5, 3.0]
    xv = [0.1, 0.4, 0.9, 1.3]
    # shadow values: put the sign change in segment k
    gv = [(-1.0 - 0.5 * (k - i)) if i <= k else (2.0 + 0.5 * (i - k - 1)) for i in range(N)]
    times = _symarr([T.Sym.var("t%d" % i, tv[i]) for i in range(N)])
    g_all = _symarr([T.Sym.var("g%d" % i, gv[i]) for i in range(N)])
    st = np.empty((N, 1), dtype=object)
    for i in range(N):
        st[i, 0] = T.Sym.var("x%d" % i, xv[i])
    st = st.view(_SymArr)
    alpha = _symarr([T.Sym.var("s", sval)])
    f = T.retarget(B._refine_hits_cubic, {"float": _ident_float}, shim=_Shim())
    th, xh = f(times, st, g_all, np.array([k]), alpha, max_iter=max_iter)
    return T.Sym.lift(th[0]), T.Sym.lift(np.asarray(xh[0]).ravel()[0])


def trace_linear():
    """`_crossing_indices_and_alpha` + `_refine_hits_linear` on one symbolic segment (shadow: a -/+ crossing)."""
    from hiten.algorithms.poincare.synodic import backend as B
    out = {}
    for dname, d in (("Any", None), ("Pos", 1)):
        T.reset()
        g0 = _symarr([T.Sym.var("g0", -1.0)])
        g1 = _symarr([T.Sym.var("g1", 3.0)])
        f = T.retarget(B._crossing_indices_and_alpha, {"float": _ident_float}, shim=_Shim())
        cr, al = f(g0, g1, on_mask=np.zeros(1, dtype=bool), direction=d)
        assert list(cr) == [0]
        out["alpha" + dname] = T.Sym.lift(al[0])
    T.reset()
    t0 = _symarr([T.Sym.var("t0", 0.5)])
    t1 = _symarr([T.Sym.var("t1", 1.5)])
    x0 = np.empty((1, 1), dtype=object)
    x1 = np.empty((1, 1), dtype=object)
    x0[0, 0] = T.Sym.var("x0", 0.2)
    x1[0, 0] = T.Sym.var("x1", 0.9)
    a = _symarr([T.Sym.var("a", 0.25)])
    f = T.retarget(B._refine_hits_linear, {"float": _ident_float}, shim=_Shim())
    th, xh = f(t0, t1, x0.view(_SymArr), x1.view(_SymArr), np.array([0]), a)
    out["linTime"] = T.Sym.lift(th[0])
    out["linState"] = T.Sym.lift(np.asarray(xh[0]).ravel()[0])
    return out


CVARS = ["s"] + ["t%d" % i for i in range(4)] + ["g%d" % i for i in range(4)] + ["x%d" % i for i in range(4)]


def gen(ctx):
    tr = {}
    h, d = trace_hermite()
    tr["hermite"], tr["hermiteDer"] = h, d
    hidx = {n: i for i, n in enumerate(HVARS)}
    cidx = {n: i for i, n in enumerate(CVARS)}
    txt = E.header("C15", note="traced from poincare/utils.py (_hermite_scalar, _hermite_der) and synodic/backend.py "
                               "(_refine_hits_cubic, _refine_hits_linear, _crossing_indices_and_alpha)")
    txt += "open RE\n-- variables of hermite/hermiteDer: 0 s, 1 y0, 2 y1, 3 dy0, 4 dy1, 5 dt\n"
    txt += E.re_def("hermite", h, hidx)
    txt += E.re_def("hermiteDer", d, hidx)
    # _refine_hits_cubic: interior segment (k=1 of 4 samples), left boundary (k=0 of 3), right boundary (k=1 of 3),
    # isolated (k=0 of 2); with 0 and 1 Newton updates
    txt += "-- variables of cub*: 0 s(=alpha), 1..4 t0..t3, 5..8 g0..g3, 9..12 x0..x3 (samples of the trajectory)\n"
    for tag, k, N in (("I", 1, 4), ("L", 0, 3), ("R", 1, 3), ("B", 0, 2)):
        th0, xh0 = trace_cubic(0, k, N)
        th1, xh1 = trace_cubic(1, k, N)
        tr["cubTime0" + tag], tr["cubState0" + tag] = th0, xh0
        tr["cubTime1" + tag], tr["cubState1" + tag] = th1, xh1
        txt += E.re_def("cubTime0" + tag, th0, cidx)
        txt += E.re_def("cubState0" + tag, xh0, cidx)
        txt += E.re_def("cubTime1" + tag, th1, cidx)
    lin = trace_linear()
    tr.update(lin)
    txt += "-- variables of alpha*: 0 g0, 1 g1;  of linTime/linState: 0 alpha, 1 t0, 2 t1, 3 x0, 4 x1\n"
    txt += E.re_def("alphaAny", lin["alphaAny"], {"g0": 0, "g1": 1})
    txt += E.re_def("alphaPos", lin["alphaPos"], {"g0": 0, "g1": 1})
    lidx = {"a": 0, "t0": 1, "t1": 2, "x0": 3, "x1": 4}
    txt += E.re_def("linTime", lin["linTime"], lidx)
    txt += E.re_def("linState", lin["linState"], lidx)
    txt += E.footer("C15")
    ctx.write_gen("HitenModel.Gen.C15", txt)
    return tr


# --------------------------------------------------------------------------- correspondence (T-corr)

COORD = ["x", "y", "z", "vx", "vy", "vz"]


def fr(x):
    return x if isinstance(x, Fraction) else Fraction(x)


def fstr(q):
    q = fr(q)
    return str(q.numerator) if q.denominator == 1 else "%d/%d" % (q.numerator, q.denominator)


class Case:
    """One detector call.  All numbers are Fractions that are exactly representable as float64."""

    def __init__(self, times, states, normal, offset, direction, tol, ttol, ptol, maxhits, pc, cubic, refine, iters,
                 exact, tag=""):
        self.times, self.states, self.normal, self.offset = times, states, normal, offset
        self.direction, self.tol, self.ttol, self.ptol, self.maxhits = direction, tol, ttol, ptol, maxhits
        self.pc, self.cubic, self.refine, self.iters, self.exact, self.tag = pc, cubic, refine, iters, exact, tag

    def line(self):
        head = [str(self.direction or 0), fstr(self.tol), fstr(self.ttol), fstr(self.ptol),
                str(-1 if self.maxhits is None else self.maxhits), str(self.pc[0]), str(self.pc[1]),
                "1" if self.cubic else "0", str(self.refine), str(self.iters)]
        nums = [fstr(v) for v in self.normal] + [fstr(self.offset), str(len(self.times))]
        for t, x in zip(self.times, self.states):
            nums.append(fstr(t))
            nums += [fstr(v) for v in x]
        return " ".join(head + nums)

    def g(self):
        return [sum(a * b for a, b in zip(x, self.normal)) - self.offset for x in self.states]

    def kwargs(self):
        return dict(normal=np.array([float(v) for v in self.normal]), offset=float(self.offset),
                    plane_coords=(COORD[self.pc[0]], COORD[self.pc[1]]),
                    interp_kind="cubic" if self.cubic else "linear", segment_refine=self.refine,
                    tol_on_surface=float(self.tol), dedup_time_tol=float(self.ttol), dedup_point_tol=float(self.ptol),
                    max_hits_per_traj=self.maxhits, newton_max_iter=self.iters, direction=self.direction)

    def replay(self):
        d = self.kwargs()
        d["normal"] = [float(v) for v in self.normal]
        return {"call": "_SynodicDetectionBackend().detect_on_trajectory(times, states, **kwargs)",
                "times": [float(t) for t in self.times], "states": [[float(v) for v in x] for x in self.states],
                "kwargs": d, "section_values": [float(v) for v in self.g()], "tag": self.tag}


def run_real(backend, case):
    ts = np.array([float(t) for t in case.times])
    st = np.array([[float(v) for v in x] for x in case.states])
    with np.errstate(all="ignore"):
        hits = backend.detect_on_trajectory(ts, st, **case.kwargs())
    return [(float(h.time), [float(v) for v in h.state], [float(v) for v in h.point2d]) for h in hits]


def parse_model(line):
    toks = line.split()
    assert toks and toks[0] == "H", line
    out = []
    for tok in toks[2:]:
        seg, on, s, tm, xs = tok.split(":")
        out.append({"seg": int(seg), "on": on == "1", "s": Fraction(s), "time": Fraction(tm),
                    "state": [Fraction(v) for v in xs.split(",")]})
    assert len(out) == int(toks[1])
    return out


def make_states(rng, times, g, normal, offset):
    """6-D states with normal·x − offset == g exactly (normal[lead] == 1), other coordinates small dyadics that make
    the projected point move with time."""
    lead = [i for i, v in enumerate(normal) if v == 1][0]
    states = []
    for k, (t, gv) in enumerate(zip(times, g)):
        x = [F(0)] * 6
        for i in range(6):
            if i != lead:
                x[i] = [t, F(k * k, 4), 2 * t - 1, F(k, 2) - t, F(1, 2) + k, -t][i]
        x[lead] = gv + offset - sum(normal[i] * x[i] for i in range(6) if i != lead)
        states.append(x)
    return states


NORMALS = [([F(1), F(0), F(0), F(0), F(0), F(0)], F(0)),
           ([F(0), F(1), F(0), F(0), F(0), F(0)], F(1, 2)),
           ([F(1), F(2), F(0), F(-1), F(0), F(1, 2)], F(3, 4)),
           ([F(-1, 2), F(0), F(1), F(0), F(3), F(0)], F(-2))]
PCS = [(1, 4), (0, 2), (3, 5), (1, 2)]


def dyadic_grid(rng, N, uniform=False):
    t = F(rng.choice([0, -3, 5, 1])) / rng.choice([1, 2, 4])
    out = [t]
    for _ in range(N - 1):
        t = t + (F(1, 2) if uniform else rng.choice([F(1), F(1, 2), F(2), F(1, 4)]))
        out.append(t)
    return out


def exact_cases(ctx):
    """All sign patterns {−,0,+}^N (N up to 6 quick / 8 thorough, sampled beyond) x directions; magnitudes in {1,3}
    (every alpha is then dyadic and the float code is exact), dyadic non-uniform grids, tolerances including 0 and a
    tolerance (2) that makes the magnitude-1 samples on-surface although non-zero, refinements 0/1/3, dedup on/off."""
    rng = ctx.rng
    full_to = 8 if ctx.thorough() else 6
    cases = []
    for N in range(2, 9):
        pats = list(itertools.product((-1, 0, 1), repeat=N))
        if N > full_to:
            pats = rng.sample(pats, 700 if N == 7 else 500)
        for pat in pats:
            g = [F(sg * rng.choice([1, 3])) for sg in pat]
            times = dyadic_grid(rng, N, uniform=rng.random() < 0.3)
            normal, offset = NORMALS[rng.randrange(len(NORMALS))]
            states = make_states(rng, times, g, normal, offset)
            pc = PCS[rng.randrange(len(PCS))]
            for d in (None, 1, -1):
                tol = rng.choice([F(1, 1024), F(1, 1024), F(0), F(2)])
                ttol = rng.choice([F(0), F(1, 2 ** 20), F(1, 2 ** 20), F(3, 4)])
                ptol = rng.choice([F(0), F(1, 2 ** 20), F(1, 2 ** 20), F(3, 2)])
                mh = rng.choice([None, None, None, None, 1, 2, 0])
                refine = rng.choice([0, 0, 1, 3])
                cases.append(Case(times, states, normal, offset, d, tol, ttol, ptol, mh, pc, False, refine, 4, True,
                                  tag="exact N=%d pat=%s" % (N, "".join("-0+"[s + 1] for s in pat))))
    return cases


def approx_cases(ctx):
    """Random float trajectories (general magnitudes, non-dyadic quotients, refinement counts that are not powers of
    two, cubic interpolation with 0..3 Newton updates on low-bit dyadic data)."""
    rng = ctx.rng
    cases = []
    n = 1500 if ctx.thorough() else 400
    for k in range(n):
        N = rng.randint(2, 9)
        cubic = (k % 2 == 0)
        if cubic:
            g = [F(rng.randint(-12, 12), 4) if rng.random() < 0.85 else F(0) for _ in range(N)]
            times = dyadic_grid(rng, N, uniform=rng.random() < 0.5)
        else:
            g = [F(float(rng.uniform(-1, 1))) if rng.random() < 0.85 else F(0) for _ in range(N)]
            t = F(float(rng.uniform(-1, 1)))
            times = [t]
            for _ in range(N - 1):
                t = F(float(t + F(float(rng.uniform(0.05, 1.0)))))
                times.append(t)
        normal, offset = NORMALS[rng.randrange(2)]      # axis normals: g = x_i − c is computed without rounding issues in sign
        states = make_states(rng, times, g, normal, offset)
        if not cubic:
            # make every entry a float64 value and recompute nothing: g := exact value of the float states
            states = [[F(float(v)) for v in x] for x in states]
        d = rng.choice([None, 1, -1])
        refine = rng.choice([0, 1, 2, 3, 4, 6]) if not cubic else rng.choice([0, 0, 1, 3])
        iters = rng.choice([0, 1, 2, 3]) if cubic else 4
        cases.append(Case(times, states, normal, offset, d, F(1, 2 ** 30), F(1, 2 ** 30), F(1, 2 ** 30), None,
                          PCS[rng.randrange(len(PCS))], cubic, refine, iters, False,
                          tag="approx cubic=%s" % cubic))
    return cases


def compare(case, real, model):
    """None if the outputs agree, else a description."""
    if len(real) != len(model):
        return "number of hits: code %d, model %d" % (len(real), len(model))
    for i, (r, m) in enumerate(zip(real, model)):
        rt, rx, rp = r
        vals = [(F(rt), m["time"], "time")] + [(F(a), b, "state[%d]" % j) for j, (a, b) in enumerate(zip(rx, m["state"]))]
        vals += [(F(rp[0]), m["state"][case.pc[0]], "point2d[0]"), (F(rp[1]), m["state"][case.pc[1]], "point2d[1]")]
        for a, b, nm in vals:
            if case.exact:
                if a != b:
                    return "hit %d %s: code %r, model %r (exact arithmetic case)" % (i, nm, float(a), float(b))
            else:
                tol = 1e-9 if case.cubic else 1e-11
                if abs(a - b) > tol * (1 + abs(b)):
                    return "hit %d %s: code %r, model %r" % (i, nm, float(a), float(b))
    return None


def correspondence(ctx, backend):
    cases = exact_cases(ctx) + approx_cases(ctx)
    ctx.log("correspondence: %d cases" % len(cases))
    text = "\n".join(c.line() for c in cases) + "\n"
    out = [l for l in ctx.lean_run("Drivers/C15.lean", text) if l.startswith(("H", "E"))]
    ctx.log("lean driver returned %d lines" % len(out))
    if len(out) != len(cases):
        ctx.broken.append(("correspondence:detect", "driver returned %d lines for %d cases" % (len(out), len(cases))))
        ctx.obligations["correspondence:detect"] = False
        return cases
    bad = []
    kinds = {}
    for c, line in zip(cases, out):
        model = parse_model(line)
        real = run_real(backend, c)
        msg = compare(c, real, model)
        nh = len(model)
        non_on = sum(1 for h in model if not h["on"])
        key = (c.tag, str(c.direction), c.refine, c.cubic, fstr(c.tol), fstr(c.ttol), str(c.maxhits))
        ctx.case(key, nontrivial=nh > 0, kind="%s r=%d %s" % ("cubic" if c.cubic else "linear", c.refine, "exact" if c.exact else "approx"),
                 sample={"case": c.replay(), "hits": [[float(h["time"])] + [float(v) for v in h["state"]] for h in model]} if len(ctx.samples) < 3 and non_on > 1 else None)
        ctx.corr_cases += 1
        kinds["hits=%d" % min(nh, 6)] = kinds.get("hits=%d" % min(nh, 6), 0) + 1
        if msg:
            bad.append((c, msg, real, model))
    ctx.extra["correspondence_hit_count_histogram"] = kinds
    ctx.extra["correspondence_cases"] = len(cases)
    if bad:
        c, msg, real, model = bad[0]
        ctx.broken.append(("correspondence:detect", "%d of %d cases disagree; first: %s; %s" % (len(bad), len(cases), c.tag, msg)))
        ctx.obligations["correspondence:detect"] = False
        ctx.extra["correspondence_first_disagreement"] = {"case": c.replay(), "message": msg, "code": real,
                                                          "model": [[float(h["time"])] + [float(v) for v in h["state"]] for h in model]}
    else:
        ctx.obligations["correspondence:detect"] = True
    return cases


def run(ctx):
    tr = gen(ctx)
    from hiten.algorithms.poincare.synodic.backend import _SynodicDetectionBackend
    backend = _SynodicDetectionBackend()
    cases = correspondence(ctx, backend)
