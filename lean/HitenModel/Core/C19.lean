/- Core/C19.lean — hand model of hiten.algorithms.connections.backends (import-free, executable).

Everything is polymorphic in the scalar type `K` and uses only the notation classes, so the *same* definitions
are (a) executed over `Rat` by `Drivers/C19.lean` for the exact correspondence with the real code and
(b) reasoned about over an arbitrary linearly ordered field in `Props/C19.lean`.

Python object                         model
------------------------------------  -----------------------------------------------
_pair_counts                          pairCounts / countRow
_exclusive_prefix_sum                 exclPrefix
_radpair2d (np.empty + writes)        radpair : List (Option (Nat × Nat))   (none = slot never written)
run: best_for_i / best_for_j dicts    upsert / lookupB / bestFold  (insertion-ordered association lists)
run: mutual filter                    mutualPairs
_nearest_neighbor_2d_numba            nnAll (none = -1; the 1e300 sentinel is modelled as +infinity)
_closest_points_on_segments_2d        closestCore (hand) — and Gen.C19.closestGen (traced from the source)
_refine_pairs_on_section              refineOne
run: result loop, thresholds, sort    mkConn / leTol / sortConns / run
-/
namespace HitenModel.C19

section
variable {K : Type} [Add K] [Sub K] [Mul K] [Div K] [Neg K] [LT K] [LE K]
  [DecidableLT K] [DecidableLE K] [DecidableEq K] [OfNat K 0] [OfNat K 1]

abbrev Pt (K : Type) := K × K

/-- squared distance, exactly as the code computes it: `dx*dx + dy*dy` -/
def d2 (p q : Pt K) : K := (p.1 - q.1) * (p.1 - q.1) + (p.2 - q.2) * (p.2 - q.2)

/-! ### radius pairing: counts, offsets, fill -/

/-- inner loop of `_pair_counts` (counter `c`) -/
def countRow (r2 : K) (p : Pt K) : List (Pt K) → Nat → Nat
  | [], c => c
  | q :: qs, c => if d2 p q ≤ r2 then countRow r2 p qs (c + 1) else countRow r2 p qs c

def pairCounts (r2 : K) (query ref : List (Pt K)) : List Nat :=
  query.map fun p => countRow r2 p ref 0

/-- loop of `_exclusive_prefix_sum` with running sum `s`; produces out[1..] -/
def prefixGo : List Nat → Nat → List Nat
  | [], _ => []
  | a :: as, s => (s + a) :: prefixGo as (s + a)

def exclPrefix (a : List Nat) : List Nat := 0 :: prefixGo a 0

/-- inner fill loop of `_radpair2d`: `j` = column, `w` = write cursor -/
def fillRow (r2 : K) (i : Nat) (p : Pt K) : List (Pt K) → Nat → Nat → List (Option (Nat × Nat)) → List (Option (Nat × Nat))
  | [], _, _, arr => arr
  | q :: qs, j, w, arr =>
      if d2 p q ≤ r2 then fillRow r2 i p qs (j + 1) (w + 1) (arr.set w (some (i, j)))
      else fillRow r2 i p qs (j + 1) w arr

/-- outer fill loop: row `i` starts writing at `offs[i]` -/
def fillAll (r2 : K) (ref : List (Pt K)) (offs : List Nat) : List (Pt K) → Nat → List (Option (Nat × Nat)) → List (Option (Nat × Nat))
  | [], _, arr => arr
  | p :: ps, i, arr => fillAll r2 ref offs ps (i + 1) (fillRow r2 i p ref 0 (offs.getD i 0) arr)

/-- `_radpair2d`: the pairs array after the fill (slot = none when never written) -/
def radpair (query ref : List (Pt K)) (radius : K) : List (Option (Nat × Nat)) :=
  let r2 := radius * radius
  let counts := pairCounts r2 query ref
  let offs := exclPrefix counts
  let total := offs.getLastD 0
  fillAll r2 ref offs query 0 (List.replicate total none)

/-- the specification the fill must meet: row-major list of all in-radius index pairs -/
def hitsRow (r2 : K) (p : Pt K) : List (Pt K) → Nat → List Nat
  | [], _ => []
  | q :: qs, j => if d2 p q ≤ r2 then j :: hitsRow r2 p qs (j + 1) else hitsRow r2 p qs (j + 1)

def allPairsFrom (r2 : K) (ref : List (Pt K)) : List (Pt K) → Nat → List (Nat × Nat)
  | [], _ => []
  | p :: ps, i => (hitsRow r2 p ref 0).map (fun j => (i, j)) ++ allPairsFrom r2 ref ps (i + 1)

def allPairs (r2 : K) (query ref : List (Pt K)) : List (Nat × Nat) := allPairsFrom r2 ref query 0

/-! ### mutual-best bookkeeping (dicts keep insertion order; strict `<` keeps the first minimum) -/

abbrev Best (K : Type) := List (Nat × K × Nat)

def upsert (k : Nat) (val : K) (x : Nat) : Best K → Best K
  | [] => [(k, val, x)]
  | (k', v', x') :: t =>
      if k' = k then (if val < v' then (k, val, x) :: t else (k', v', x') :: t)
      else (k', v', x') :: upsert k val x t

def lookupB (k : Nat) : Best K → Option (K × Nat)
  | [] => none
  | (k', v', x') :: t => if k' = k then some (v', x') else lookupB k t

def ptAt (ps : List (Pt K)) (i : Nat) : Pt K := ps.getD i (0, 0)

def bestFold (pu ps : List (Pt K)) : List (Nat × Nat) → Best K × Best K → Best K × Best K
  | [], b => b
  | (i, j) :: t, (bi, bj) =>
      let val := d2 (ptAt pu i) (ptAt ps j)
      bestFold pu ps t (upsert i val j bi, upsert j val i bj)

def mutualFilter (bj : Best K) : Best K → List (Nat × Nat)
  | [] => []
  | (i, vi, j) :: t =>
      match lookupB j bj with
      | some (vj, ii) => if ii = i ∧ vi = vj then (i, j) :: mutualFilter bj t else mutualFilter bj t
      | none => mutualFilter bj t

def mutualPairs (pu ps : List (Pt K)) (pairsArr : List (Nat × Nat)) : List (Nat × Nat) :=
  let b := bestFold pu ps pairsArr ([], [])
  mutualFilter b.2 b.1

/-! ### nearest neighbour inside one cloud -/

def nnRow (i : Nat) (pi : Pt K) : List (Pt K) → Nat → Option (K × Nat) → Option (K × Nat)
  | [], _, b => b
  | q :: qs, j, b =>
      if j = i then nnRow i pi qs (j + 1) b
      else
        let d := d2 pi q
        match b with
        | none => nnRow i pi qs (j + 1) (some (d, j))
        | some (bd, bj) => if d < bd then nnRow i pi qs (j + 1) (some (d, j)) else nnRow i pi qs (j + 1) (some (bd, bj))

def nnFrom (pts : List (Pt K)) : List (Pt K) → Nat → List (Option Nat)
  | [], _ => []
  | p :: ps, i => ((nnRow i p pts 0 none).map (·.2)) :: nnFrom pts ps (i + 1)

def nnAll (pts : List (Pt K)) : List (Option Nat) := nnFrom pts pts 0

/-! ### closest points of two segments (hand model with the statement structure of the source) -/

def clamp01 (x : K) : K := if x < 0 then 0 else if x > 1 then 1 else x

/-- initial guess: interior stationary point (`t` = projection of `a₀ + s u` onto the second line, as the code computes it since the
repair of the near-parallel float case; equal to `(AE − BD)/den` in exact arithmetic), or the projections used for parallel / degenerate segments -/
def firstStage (A B C D E : K) : K × K :=
  if A * C - B * B > 0 then ((B * E - C * D) / (A * C - B * B), (B * ((B * E - C * D) / (A * C - B * B)) + E) / C)
  else if C > 0 then (0, E / C)
  else if A > 0 then (-D / A, 0)
  else (0, 0)

/-- clamp `s`, recompute `t` -/
def midStage (B C E : K) (st0 : K × K) : K × K :=
  if st0.1 < 0 then (0, if C > 0 then E / C else st0.2)
  else if st0.1 > 1 then (1, if C > 0 then (E + B) / C else st0.2)
  else st0

/-- clamp `t`, recompute and clamp `s` -/
def finalStage (A B D : K) (st1 : K × K) : K × K :=
  if st1.2 < 0 then (if A > 0 then clamp01 (-D / A) else st1.1, 0)
  else if st1.2 > 1 then (if A > 0 then clamp01 ((B - D) / A) else st1.1, 1)
  else st1

/-- the (s,t) part of `_closest_points_on_segments_2d` as a function of the five dot products -/
def closestST (A B C D E : K) : K × K :=
  finalStage A B D (midStage B C E (firstStage A B C D E))

/-- `(s, t, px, py, qx, qy)` -/
def closestCore (a0x a0y a1x a1y b0x b0y b1x b1y : K) : K × K × K × K × K × K :=
  let ux := a1x - a0x
  let uy := a1y - a0y
  let vx := b1x - b0x
  let vy := b1y - b0y
  let wx := a0x - b0x
  let wy := a0y - b0y
  let st := closestST (ux * ux + uy * uy) (ux * vx + uy * vy) (vx * vx + vy * vy) (ux * wx + uy * wy) (vx * wx + vy * wy)
  (st.1, st.2, a0x + st.1 * ux, a0y + st.1 * uy, b0x + st.2 * vx, b0y + st.2 * vy)

abbrev ClosestFn (K : Type) := K → K → K → K → K → K → K → K → K × K × K × K × K × K

/-! ### refinement of one matched pair -/

def half : K := 1 / (1 + 1)

structure Refined (K : Type) where
  point : Pt K
  u0 : Nat
  u1 : Nat
  s0 : Nat
  s1 : Nat
  s : K
  t : K
  valid : Bool

def fallback (pu : List (Pt K)) (i j : Nat) : Refined K :=
  { point := ptAt pu i, u0 := i, u1 := i, s0 := j, s1 := j, s := 0, t := 0, valid := false }

/-- one iteration of the loop of `_refine_pairs_on_section`; `du > max_seg_len` is compared squared
(`maxLen ≥ 0`; the backend always uses the default 1e9) -/
def refineOne (closest : ClosestFn K) (maxLen : K) (pu ps : List (Pt K)) (nnu nns : List (Option Nat))
    (ij : Nat × Nat) : Refined K :=
  let i := ij.1
  let j := ij.2
  match nnu.getD i none, nns.getD j none with
  | some iu, some js =>
      if iu = i ∨ js = j then fallback pu i j
      else if d2 (ptAt pu iu) (ptAt pu i) > maxLen * maxLen ∨ d2 (ptAt ps js) (ptAt ps j) > maxLen * maxLen then fallback pu i j
      else
        let a0 := ptAt pu i
        let a1 := ptAt pu iu
        let b0 := ptAt ps j
        let b1 := ptAt ps js
        let r := closest a0.1 a0.2 a1.1 a1.2 b0.1 b0.2 b1.1 b1.2
        { point := (half * (r.2.2.1 + r.2.2.2.2.1), half * (r.2.2.2.1 + r.2.2.2.2.2)),
          u0 := i, u1 := iu, s0 := j, s1 := js, s := r.1, t := r.2.1, valid := true }
  | _, _ => fallback pu i j

/-! ### results -/

/-- one reported connection; `seg` is ghost information (the segment partners and parameters when refined) -/
structure Conn (K : Type) where
  ballistic : Bool
  dv2 : K
  point : Pt K
  stateU : List K
  stateS : List K
  iu : Nat
  is : Nat
  tu : Nat
  ts : Nat
  seg : Option (Nat × Nat × K × K)

def lerp (s : K) (a b : List K) : List K := List.zipWith (fun x y => (1 - s) * x + s * y) a b

def vel (x : List K) : List K := (x.drop 3).take 3

def sqDiff (v w : List K) : K := (List.zipWith (fun a b => (a - b) * (a - b)) v w).foldl (· + ·) 0

/-- `sqrt dv2 ≤ tol` for `dv2 ≥ 0`, without the square root -/
def leTol (dv2 tol : K) : Bool := decide (0 ≤ tol) && decide (dv2 ≤ tol * tol)

def stAt (X : List (List K)) (i : Nat) : List K := X.getD i []

def trajAt (t : Option (List Nat)) (i : Nat) : Nat :=
  match t with
  | none => 0
  | some l => l.getD i 0

/-- body of the result loop of `run` for one mutual pair (none = filtered out by `dv <= dv_tol`) -/
def mkConn (Xu Xs : List (List K)) (pu : List (Pt K)) (tu ts : Option (List Nat)) (dvTol balTol : K)
    (ij : Nat × Nat) (r : Refined K) : Option (Conn K) :=
  let i := ij.1
  let j := ij.2
  if r.valid ∧ r.u0 ≠ r.u1 ∧ r.s0 ≠ r.s1 then
    let xu := lerp r.s (stAt Xu r.u0) (stAt Xu r.u1)
    let xs := lerp r.t (stAt Xs r.s0) (stAt Xs r.s1)
    let dv2 := sqDiff (vel xu) (vel xs)
    if leTol dv2 dvTol then
      some { ballistic := leTol dv2 balTol, dv2 := dv2, point := r.point, stateU := xu, stateS := xs,
             iu := i, is := j, tu := trajAt tu i, ts := trajAt ts j, seg := some (r.u1, r.s1, r.s, r.t) }
    else none
  else
    let dv2 := sqDiff (vel (stAt Xu i)) (vel (stAt Xs j))
    if leTol dv2 dvTol then
      some { ballistic := leTol dv2 balTol, dv2 := dv2, point := ptAt pu i, stateU := stAt Xu i, stateS := stAt Xs j,
             iu := i, is := j, tu := trajAt tu i, ts := trajAt ts j, seg := none }
    else none

/-- stable insertion (after all elements whose key is ≤) -/
def insertConn (x : Conn K) : List (Conn K) → List (Conn K)
  | [] => [x]
  | y :: ys => if x.dv2 < y.dv2 then x :: y :: ys else y :: insertConn x ys

def sortConns (l : List (Conn K)) : List (Conn K) := l.foldl (fun acc x => insertConn x acc) []

structure Input (K : Type) where
  pu : List (Pt K)
  ps : List (Pt K)
  Xu : List (List K)
  Xs : List (List K)
  tu : Option (List Nat)
  ts : Option (List Nat)
  eps : K
  dvTol : K
  balTol : K

/-- the radius pairs the backend reads back from the array (unwritten slots would be garbage; none exist, see
`prefix_sum_layout`) -/
def pairsArr (inp : Input K) : List (Nat × Nat) := (radpair inp.pu inp.ps inp.eps).filterMap id

def unsorted (closest : ClosestFn K) (maxLen : K) (inp : Input K) : List (Conn K) :=
  let pairs := mutualPairs inp.pu inp.ps (pairsArr inp)
  let nnu := nnAll inp.pu
  let nns := nnAll inp.ps
  pairs.filterMap fun ij =>
    mkConn inp.Xu inp.Xs inp.pu inp.tu inp.ts inp.dvTol inp.balTol ij (refineOne closest maxLen inp.pu inp.ps nnu nns ij)

/-- `_ConnectionsBackend.run` -/
def run (closest : ClosestFn K) (maxLen : K) (inp : Input K) : List (Conn K) :=
  if inp.pu.isEmpty ∨ inp.ps.isEmpty then []
  else sortConns (unsorted closest maxLen inp)

end

end HitenModel.C19
