/- Core/Drv.lean — tiny helpers shared by the line-protocol drivers (import-free). -/
namespace Drv

def parseInt? (s : String) : Option Int :=
  if s.startsWith "-" then (s.drop 1).toNat?.map fun n => -(Int.ofNat n) else s.toNat?.map Int.ofNat

/-- "n/d" or "n" -/
def parseRat? (s : String) : Option Rat :=
  match s.splitOn "/" with
  | [n] => (parseInt? n).map fun i => (i : Rat)
  | [n, d] => do
      let i ← parseInt? n
      let k ← d.toNat?
      if k = 0 then none else some ((i : Rat) / (k : Rat))
  | _ => none

def parseRats (ws : List String) : Option (List Rat) := ws.mapM parseRat?
def parseNats (ws : List String) : Option (List Nat) := ws.mapM String.toNat?

def showRat (r : Rat) : String := if r.den = 1 then toString r.num else s!"{r.num}/{r.den}"
def showVec (v : List Rat) : String := " ".intercalate (v.map showRat)
def showVecs (vs : List (List Rat)) : String := ";".intercalate (vs.map showVec)

def natSqrt (n : Nat) : Nat := Id.run do
  -- integer square root by Newton iteration with fuel
  if n < 2 then return n
  let mut x := n
  let mut y := (x + 1) / 2
  for _ in [0:200] do
    if y < x then
      x := y
      y := (x + n / x) / 2
  return x

/-- exact square root of a non-negative rational when it is a perfect square -/
def exactSqrt? (r : Rat) : Option Rat :=
  if r < 0 then none else
  let n := r.num.toNat
  let d := r.den
  let sn := natSqrt n
  let sd := natSqrt d
  if sn * sn = n && sd * sd = d then some ((sn : Rat) / (sd : Rat)) else none

def words (line : String) : List String := (line.splitOn " ").filter (· ≠ "")

partial def forLines (h : IO.FS.Stream) (σ : Type) (s : σ) (f : σ → String → IO σ) : IO σ := do
  let line ← h.getLine
  if line.isEmpty then return s
  let s' ← f s (line.trimRight)
  forLines h σ s' f

end Drv
