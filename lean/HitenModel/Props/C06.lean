/- Props/C06.lean — C06: polynomial algebra is exact and independent of thread scheduling.

Model: `Core/C06.lean` (tied to /repo by `Gen/C06.lean` + the table stream + the exact kernel correspondence, see
harness/props/c06.py).  Semantics: a coefficient block `p` of degree `d` stands for the Mathlib polynomial
`toMv clmo d p = Σ_i p[i] · X^(decode i d) : MvPolynomial (Fin 6) K`.  All theorems hold for every commutative
(semi)ring / field `K`, every table degree `D ≤ 63`, every block, and every schedule of the `prange` loops
(`sched : List (List Nat)`, thread `t` executes the outer iterations `sched[t]` in that order; valid iff every
iteration is executed exactly once: `sched.flatten.Perm (List.range n)`). -/
import HitenModel.Lemmas.C06Poly
import HitenModel.Lemmas.C06Subst
import HitenModel.Lemmas.C06Deg
import HitenModel.Gen.C06

set_option linter.unusedSectionVars false

open MvPolynomial
namespace HitenModel.C06
open HitenModel.Gen.C06

/-! ## 0. the model's tables are the live tables of the imported package (regenerated every run) -/

/-- the live `_PSI_GLOBAL` is the model's `psi` (all 7 × 31 entries) -/
theorem gen_psi_is_model : psiReal = (List.range 7).map fun i => (List.range 31).map (psi i) := by decide +kernel

/-- the live `_CLMO_GLOBAL[0..6]` is the model's table (the whole table, degree ≤ 30, is compared by the driver) -/
theorem gen_clmo_is_model : clmoReal = mkTables 6 := by decide +kernel

/-- the live encode dicts (degree 0..6), inverted to key-by-slot, are the model's table: each dict is the inverse of clmo -/
theorem gen_encode_is_model : encKeysReal = mkTables 6 := by decide +kernel

theorem gen_constants : nVars = 6 ∧ fastmath = false ∧ tableDegree = 30 ∧ psiShape = (7, 31) := by decide

/-! ## 1. every monomial has exactly one slot -/

/-- **table bijection**: for every degree `d` the nested loops of `_init_index_tables` list every multi-index of total
degree `d` in 6 variables exactly once; there are `C(d+5,5) = psi[6,d]` of them, and for `d ≤ 63` the packed table
`clmo[d]` has no repeated entry. -/
theorem table_bijection (d : Nat) :
    (∀ k : List Nat, k ∈ enum 6 d ↔ (k.length = 6 ∧ k.sum = d)) ∧ (enum 6 d).Nodup ∧
    (enum 6 d).length = Nat.choose (d + 5) 5 ∧ psi 6 d = (clmoModel d).length ∧ psi 6 d = Nat.choose (d + 5) 5 ∧
    (d ≤ 63 → (clmoModel d).Nodup) :=
  ⟨mem_enum 6 d, nodup_enum 6 d, length_enum 5 d, psi6_eq_length d, psi_succ 5 d, clmoModel_nodup⟩

/-- the integer loop of `_combinations` (`res = res*(n-i+1)//i`) computes the binomial coefficient exactly -/
theorem combinations_exact (n k : Nat) : comb n k = Nat.choose n k := comb_eq_choose n k

/-- `psi[i, d] = C(d+i-1, i-1)` for `i ≥ 1` -/
theorem psi_is_binomial (i d : Nat) : psi (i + 1) d = Nat.choose (d + i) i := psi_succ i d

/-- **unpack ∘ pack = id** for exponents ≤ 63 (`k[0]` is recovered from the true degree) -/
theorem unpack_pack (k : List Nat) (hl : k.length = 6) (hb : ∀ x ∈ k.tail, x ≤ 63) : decodePacked k.sum (pack k) = k :=
  decodePacked_pack hl hb

/-- … and the bound is sharp: the 6-bit mask drops exponent 64 -/
theorem pack_not_injective_above_63 : pack [0, 64, 0, 0, 0, 0] = pack [64, 0, 0, 0, 0, 0] ∧ pack [0, 64, 0, 0, 0, 0] = 0 := by
  decide

/-- **decode ∘ encode = id**: every multi-index of degree `d ≤ D ≤ 63` has a slot `< psi[6,d]`, `encode` returns it
and `decode` of that slot is the multi-index -/
theorem decode_encode {D d : Nat} (hD : D ≤ 63) (hd : d ≤ D) (k : List Nat) (hl : k.length = 6) (hs : k.sum = d) :
    ∃ i, i < psi 6 d ∧ encode (mkTables D) k d = some i ∧ decode (mkTables D) i d = k :=
  encode_of_degree hD hd hl hs

/-- **encode ∘ decode = id**: every slot decodes to a multi-index of the right degree which encodes back to the slot -/
theorem encode_decode {D d i : Nat} (hD : D ≤ 63) (hd : d ≤ D) (hi : i < psi 6 d) :
    (decode (mkTables D) i d).length = 6 ∧ (decode (mkTables D) i d).sum = d ∧
    encode (mkTables D) (decode (mkTables D) i d) d = some i := by
  refine ⟨length_decode _ _ _, sum_decode hD hd hi, ?_⟩
  rw [decode_table hD hd (psi_lt_enum hi)]
  exact encode_table hD hd (psi_lt_enum hi)

/-- different slots hold different monomials -/
theorem slots_distinct {D d i j : Nat} (hD : D ≤ 63) (hd : d ≤ D) (hi : i < psi 6 d) (hj : j < psi 6 d)
    (h : decode (mkTables D) i d = decode (mkTables D) j d) : i = j :=
  decode_injective hD hd hi hj (by rw [h])

/-- `encode` answers `-1` exactly when the five stored exponents alone exceed the degree argument … -/
theorem encode_none_iff_overflow {D d : Nat} (hD : D ≤ 63) (hd : d ≤ D) (k : List Nat) (hl : k.length = 6)
    (hb : ∀ x ∈ k.tail, x ≤ 63) : encode (mkTables D) k d = none ↔ d < k.tail.sum :=
  encode_none_iff hD hd hl hb

/-- … or the degree argument is outside the table -/
theorem encode_none_outside_table {D d : Nat} (h : D < d) (k : List Nat) : encode (mkTables D) k d = none :=
  encode_degree_out_of_range h k

/-- `encode` never looks at `k[0]`: whatever slot it returns is the slot of `(degree − Σ k[1..5]) :: k[1..5]`.  So the
slot is the right one iff the degree argument is the true total degree — the precondition every kernel respects. -/
theorem encode_ignores_k0 {D d : Nat} (hD : D ≤ 63) (hd : d ≤ D) (k : List Nat) (hl : k.length = 6)
    (hb : ∀ x ∈ k.tail, x ≤ 63) {i : Nat} (h : encode (mkTables D) k d = some i) :
    i < psi 6 d ∧ decode (mkTables D) i d = (d - k.tail.sum) :: k.tail :=
  encode_some_decode hD hd hl hb h

/-- explicit witness: with an inconsistent degree argument `encode` returns a slot of another monomial (`x₀⁵` asked at
degree 2 lands on the slot of `x₀²`) -/
theorem encode_wrong_slot_with_inconsistent_degree :
    encode (mkTables 4) [5, 0, 0, 0, 0, 0] 2 = some 0 ∧ decode (mkTables 4) 0 2 = [2, 0, 0, 0, 0, 0] := by decide +kernel

/-! ## 2. the kernels return the coefficients of the mathematically defined result, for every schedule -/

section semiring
variable {K : Type} [CommSemiring K] [DecidableEq K]

/-- slot `i` of a block is the coefficient of the monomial `decode i` in the polynomial the block stands for; hence a
block is determined by its polynomial -/
theorem block_semantics {D d : Nat} (hD : D ≤ 63) (hd : d ≤ D) (p : List K) (hp : p.length = psi 6 d) :
    (∀ i, i < psi 6 d → coeff (mono (decode (mkTables D) i d)) (toMv (mkTables D) d p) = p.getD i 0) ∧
    (∀ q : List K, q.length = psi 6 d → toMv (mkTables D) d p = toMv (mkTables D) d q → p = q) :=
  ⟨fun _ hi => coeff_toMv hD hd p hp hi, fun q hq h => toMv_injective hD hd p q hp hq h⟩

/-- `_poly_add` -/
theorem add_spec (clmo : List (List Nat)) (d : Nat) (p q : List K) (h : p.length = q.length) :
    toMv clmo d (polyAdd p q) = toMv clmo d p + toMv clmo d q ∧ (polyAdd p q).length = p.length := by
  refine ⟨toMv_polyAdd clmo d p q h, ?_⟩
  rw [length_polyAdd, ← h, Nat.min_self]

/-- `_poly_scale` -/
theorem scale_spec (clmo : List (List Nat)) (d : Nat) (a : K) (p : List K) :
    toMv clmo d (polyScale a p) = C a * toMv clmo d p := by
  unfold toMv polyScale
  rw [List.length_map, Finset.mul_sum]
  apply Finset.sum_congr rfl
  intro i hi
  have hi' : i < p.length := Finset.mem_range.mp hi
  rw [List.getD_eq_getElem _ _ (by rw [List.length_map]; exact hi'), List.getElem_map, List.getD_eq_getElem _ _ hi',
    C_mul_monomial]

/-- **mul_spec** + **mul_any_schedule** (polynomial form): for *every* valid schedule of the `prange` of `_poly_mul` —
any assignment of outer iterations to threads, any order inside a thread, rows reduced afterwards — the returned block
has `psi[6, dp+dq]` slots and stands for the product of the two polynomials. -/
theorem mul_spec {D dp dq : Nat} (hD : D ≤ 63) (hd : dp + dq ≤ D) (p q : List K) (hp : p.length = psi 6 dp)
    (hq : q.length = psi 6 dq) (sched : List (List Nat)) (hs : sched.flatten.Perm (List.range p.length)) :
    (polyMulSched (mkTables D) p dp q dq sched).length = psi 6 (dp + dq) ∧
    toMv (mkTables D) (dp + dq) (polyMulSched (mkTables D) p dp q dq sched)
      = toMv (mkTables D) dp p * toMv (mkTables D) dq q :=
  ⟨length_polyMulSched _ _ _ _ _ _, toMv_polyMulSched hD hd p q hp hq sched hs⟩

/-- **mul_spec**, coefficient form: slot `i` of the product block is the convolution
`Σ_{a+b = decode i} coeff_a(P) · coeff_b(Q)` -/
theorem mul_coeff_spec {D dp dq : Nat} (hD : D ≤ 63) (hd : dp + dq ≤ D) (p q : List K) (hp : p.length = psi 6 dp)
    (hq : q.length = psi 6 dq) (sched : List (List Nat)) (hs : sched.flatten.Perm (List.range p.length))
    (i : Nat) (hi : i < psi 6 (dp + dq)) :
    (polyMulSched (mkTables D) p dp q dq sched).getD i 0
      = ∑ x ∈ Finset.antidiagonal (mono (decode (mkTables D) i (dp + dq))),
          coeff x.1 (toMv (mkTables D) dp p) * coeff x.2 (toMv (mkTables D) dq q) := by
  rw [← coeff_toMv hD hd _ (length_polyMulSched _ _ _ _ _ _) hi, toMv_polyMulSched hD hd p q hp hq sched hs, coeff_mul]

/-- **mul_any_schedule** (array form): two valid schedules give the *same array*, slot by slot; in particular every
multi-threaded run equals the single-threaded `polyMul`. -/
theorem mul_any_schedule {D dp dq : Nat} (hD : D ≤ 63) (hd : dp + dq ≤ D) (p q : List K) (hp : p.length = psi 6 dp)
    (hq : q.length = psi 6 dq) (s₁ s₂ : List (List Nat)) (h₁ : s₁.flatten.Perm (List.range p.length))
    (h₂ : s₂.flatten.Perm (List.range p.length)) :
    polyMulSched (mkTables D) p dp q dq s₁ = polyMulSched (mkTables D) p dp q dq s₂ ∧
    polyMulSched (mkTables D) p dp q dq s₁ = polyMul (mkTables D) p dp q dq := by
  have key : ∀ s s' : List (List Nat), s.flatten.Perm (List.range p.length) → s'.flatten.Perm (List.range p.length) →
      polyMulSched (mkTables D) p dp q dq s = polyMulSched (mkTables D) p dp q dq s' := by
    intro s s' hs hs'
    apply toMv_injective hD hd _ _ (length_polyMulSched _ _ _ _ _ _) (length_polyMulSched _ _ _ _ _ _)
    rw [toMv_polyMulSched hD hd p q hp hq s hs, toMv_polyMulSched hD hd p q hp hq s' hs']
  exact ⟨key s₁ s₂ h₁ h₂, key s₁ _ h₁ (by simp)⟩

/-- **diff_spec** + schedule independence (polynomial form): `_poly_diff` returns the block of `∂P/∂x_v`
(`psi[6, d-1]` slots; the degree-0 case returns the zero constant block) for every valid schedule -/
theorem diff_spec {D d : Nat} (hD : D ≤ 63) (hd : d ≤ D) (p : List K) (hp : p.length = psi 6 d) (v : Fin 6)
    (sched : List (List Nat)) (hs : sched.flatten.Perm (List.range p.length)) :
    (polyDiffSched (mkTables D) p v.val d sched).length = psi 6 (d - 1) ∧
    toMv (mkTables D) (d - 1) (polyDiffSched (mkTables D) p v.val d sched) = pderiv v (toMv (mkTables D) d p) :=
  ⟨length_polyDiffSched _ _ _ _ _, toMv_polyDiffSched hD hd p hp v sched hs⟩

/-- **diff_any_schedule** (array form) -/
theorem diff_any_schedule {D d : Nat} (hD : D ≤ 63) (hd : d ≤ D) (p : List K) (hp : p.length = psi 6 d) (v : Fin 6)
    (s₁ s₂ : List (List Nat)) (h₁ : s₁.flatten.Perm (List.range p.length)) (h₂ : s₂.flatten.Perm (List.range p.length)) :
    polyDiffSched (mkTables D) p v.val d s₁ = polyDiffSched (mkTables D) p v.val d s₂ ∧
    polyDiffSched (mkTables D) p v.val d s₁ = polyDiff (mkTables D) p v.val d := by
  have key : ∀ s s' : List (List Nat), s.flatten.Perm (List.range p.length) → s'.flatten.Perm (List.range p.length) →
      polyDiffSched (mkTables D) p v.val d s = polyDiffSched (mkTables D) p v.val d s' := by
    intro s s' hs hs'
    apply toMv_injective hD (by omega : d - 1 ≤ D) _ _ (length_polyDiffSched _ _ _ _ _) (length_polyDiffSched _ _ _ _ _)
    rw [toMv_polyDiffSched hD hd p hp v s hs, toMv_polyDiffSched hD hd p hp v s' hs']
  exact ⟨key s₁ s₂ h₁ h₂, key s₁ _ h₁ (by simp)⟩

/-- **evaluate_spec**: `_poly_evaluate` (power table + term products + running sum) is the value of the polynomial -/
theorem evaluate_spec {D d : Nat} (hD : D ≤ 63) (hd : d ≤ D) (p : List K) (hp : p.length = psi 6 d) (pt : List K)
    (hpt : pt.length = 6) :
    polyEvaluate (mkTables D) p d pt = eval (fun i : Fin 6 => pt.getD i.val 0) (toMv (mkTables D) d p) :=
  polyEvaluate_eq_eval hD hd p hp pt hpt

/-- **multiply_spec** (`_polynomial_multiply`, graded lists): for well-formed inputs (blocks of `psi[6,d]` slots for
`d = 0..N`) the result is well-formed and its block of degree `r ≤ N` is `Σ_{d1+d2=r} P[d1]·Q[d2]` — the product truncated
at `max_deg` — for every scheduler of the nested `_poly_mul` calls.  The `np.any` shortcuts and shape tests are part of
the model. -/
theorem multiply_spec {D N : Nat} (hD : D ≤ 63) (hN : N ≤ D) (σ : Nat → List (List Nat))
    (hσ : ∀ n, (σ n).flatten.Perm (List.range n)) (P Q : GPoly K) (hP : WF P N) (hQ : WF Q N) :
    WF (polynomialMultiply (mkTables D) σ P Q N) N ∧ ∀ r, r ≤ N →
      toMv (mkTables D) r ((polynomialMultiply (mkTables D) σ P Q N).getD r [])
        = ∑ x ∈ Finset.antidiagonal r, toMv (mkTables D) x.1 (P.getD x.1 []) * toMv (mkTables D) x.2 (Q.getD x.2 []) :=
  toMv_polynomialMultiply hD hN σ hσ P Q hP hQ

/-- **power_spec** (`_polynomial_power`): binary exponentiation with truncation after every product computes the
truncated power.  `Ser P = Σ_r t^r · P[r]` is the graded list read as a power series in a grading variable `t`
(coefficient `r` = the polynomial of block `r`, blocks above `N` dropped) and `tr N` cuts a series after `t^N`; the
statement is `Ser (P^k computed) = tr N ((Ser P)^k)`, for every exponent `k` (including `k = 0 ↦ 1`), every scheduler. -/
theorem power_spec {D N : Nat} (hD : D ≤ 63) (hN : N ≤ D) (σ : Nat → List (List Nat))
    (hσ : ∀ n, (σ n).flatten.Perm (List.range n)) (P : GPoly K) (hP : WF P N) (k : Nat) :
    WF (polynomialPower (mkTables D) σ P k N) N ∧
    Ser (mkTables D) N (polynomialPower (mkTables D) σ P k N) = tr N ((Ser (mkTables D) N P) ^ k) :=
  Ser_polynomialPower hD hN σ hσ P hP k

/-- the same bookkeeping for one product: `Ser (P·Q computed) = tr N (Ser P · Ser Q)` -/
theorem multiply_spec_series {D N : Nat} (hD : D ≤ 63) (hN : N ≤ D) (σ : Nat → List (List Nat))
    (hσ : ∀ n, (σ n).flatten.Perm (List.range n)) (P Q : GPoly K) (hP : WF P N) (hQ : WF Q N) :
    Ser (mkTables D) N (polynomialMultiply (mkTables D) σ P Q N) = tr N (Ser (mkTables D) N P * Ser (mkTables D) N Q) :=
  Ser_multiply hD hN σ hσ P Q hP hQ

/-- **differentiate_spec** (`_polynomial_differentiate`, graded): the result is well-formed for `max(max_deg-1,0)` and its
block `r` is `∂/∂x_v` of block `r+1` of the input (any scheduler; `np.any` shortcut and shape guards included) -/
theorem differentiate_spec {D N : Nat} (hD : D ≤ 63) (hN : N ≤ D) (σ : Nat → List (List Nat))
    (hσ : ∀ n, (σ n).flatten.Perm (List.range n)) (P : GPoly K) (hP : WF P N) (v : Fin 6) :
    WF (polynomialDifferentiate (mkTables D) σ P v.val N) (N - 1) ∧ ∀ r, r + 1 ≤ N →
      toMv (mkTables D) r ((polynomialDifferentiate (mkTables D) σ P v.val N).getD r [])
        = pderiv v (toMv (mkTables D) (r + 1) (P.getD (r + 1) [])) :=
  toMv_polynomialDifferentiate hD hN σ hσ P hP v

/-- **evaluate_spec** (graded, `_polynomial_evaluate`): the value of the whole polynomial `Σ_d P[d]` at the point -/
theorem evaluate_graded_spec {D N : Nat} (hD : D ≤ 63) (hN : N ≤ D) (P : GPoly K) (hP : WF P N) (pt : List K)
    (hpt : pt.length = 6) :
    polynomialEvaluate (mkTables D) P pt
      = eval (fun i : Fin 6 => pt.getD i.val 0) (∑ d ∈ Finset.range (N + 1), toMv (mkTables D) d (P.getD d [])) :=
  polynomialEvaluate_eq_eval hD hN P hP pt hpt

end semiring

section ring
variable {K : Type} [CommRing K] [DecidableEq K]

/-- **poisson_spec**: `_poly_poisson` returns the block (degree `dp+dq-2`) of
`{P,Q} = Σ_{m<3} ∂P/∂q_m ∂Q/∂p_m − ∂P/∂p_m ∂Q/∂q_m` for every scheduler `σ` of the nested parallel kernels
(`σ n` = schedule used for a `prange` of `n` iterations); when `dp = 0` or `dq = 0` the code returns the one-slot zero
block, which is the bracket with a constant; otherwise the block has `psi[6, dp+dq-2]` slots. -/
theorem poisson_spec {D dp dq : Nat} (hD : D ≤ 63) (hd : dp + dq ≤ D) (p q : List K)
    (hp : p.length = psi 6 dp) (hq : q.length = psi 6 dq) (σ : Nat → List (List Nat))
    (hσ : ∀ n, (σ n).flatten.Perm (List.range n)) :
    toMv (mkTables D) (dp + dq - 2) (polyPoisson (mkTables D) σ p dp q dq)
      = bracket (toMv (mkTables D) dp p) (toMv (mkTables D) dq q) ∧
    ((dp = 0 ∨ dq = 0) → polyPoisson (mkTables D) σ p dp q dq = zeros (psi 6 0)) ∧
    (1 ≤ dp → 1 ≤ dq → (polyPoisson (mkTables D) σ p dp q dq).length = psi 6 (dp + dq - 2)) := by
  refine ⟨toMv_polyPoisson hD hd p q hp hq σ hσ, ?_, fun h1 h2 => length_polyPoisson hD hd h1 h2 p q hp hq σ hσ⟩
  intro h; unfold polyPoisson; rw [if_pos h]

/-- **poisson_bracket_spec** (`_polynomial_poisson_bracket`, graded): the result is well-formed and its block `r ≤ max_deg`
is `Σ_{d1+d2 = r+2} {P[d1], Q[d2]}` (all pairs of input degrees `≤ max_deg`), i.e. the bracket truncated at `max_deg`;
any scheduler; the `np.any` shortcuts, the `res_deg` window and the shape guard (which only ever rejects the one-slot
zero block of a constant operand) are part of the model. -/
theorem poisson_bracket_spec {D N : Nat} (hD : D ≤ 63) (hN : N + 2 ≤ D) (σ : Nat → List (List Nat))
    (hσ : ∀ n, (σ n).flatten.Perm (List.range n)) (P Q : GPoly K) (hP : WF P N) (hQ : WF Q N) :
    WF (polynomialPoissonBracket (mkTables D) σ P Q N) N ∧ ∀ r, r ≤ N →
      toMv (mkTables D) r ((polynomialPoissonBracket (mkTables D) σ P Q N).getD r [])
        = ∑ d1 ∈ Finset.range (N + 1), (if d1 ≤ r + 2 ∧ r + 2 - d1 ≤ N then
          bracket (toMv (mkTables D) d1 (P.getD d1 [])) (toMv (mkTables D) (r + 2 - d1) (Q.getD (r + 2 - d1) [])) else 0) :=
  toMv_polynomialPoissonBracket hD hN σ hσ P Q hP hQ

end ring

section field
variable {K : Type} [Field K] [CharZero K] [DecidableEq K]

/-- **integrate_spec**: `_poly_integrate` returns a block of degree `d+1` whose partial derivative in `x_v` is the input
(right inverse of `diff` on that variable) -/
theorem integrate_spec {D d : Nat} (hD : D ≤ 63) (hd : d + 1 ≤ D) (p : List K) (hp : p.length = psi 6 d) (v : Fin 6) :
    (polyIntegrate (mkTables D) p v.val d).length = psi 6 (d + 1) ∧
    pderiv v (toMv (mkTables D) (d + 1) (polyIntegrate (mkTables D) p v.val d)) = toMv (mkTables D) d p :=
  ⟨length_polyIntegrate _ _ _ _, pderiv_toMv_polyIntegrate hD hd p hp v⟩

/-- **integrate_spec** (graded, `_polynomial_integrate`): `max_deg+2` well-formed blocks, zero constant block, and
`∂/∂x_v` of block `r+1` of the result is block `r` of the input -/
theorem integrate_graded_spec {D N : Nat} (hD : D ≤ 63) (hN : N + 1 ≤ D) (P : GPoly K) (hP : WF P N) (v : Fin 6) :
    WF (polynomialIntegrate (mkTables D) P v.val N) (N + 1) ∧
    toMv (mkTables D) 0 ((polynomialIntegrate (mkTables D) P v.val N).getD 0 []) = 0 ∧
    ∀ r, r ≤ N → pderiv v (toMv (mkTables D) (r + 1) ((polynomialIntegrate (mkTables D) P v.val N).getD (r + 1) []))
      = toMv (mkTables D) r (P.getD r []) :=
  toMv_polynomialIntegrate hD hN P hP v

end field

/-! ## 3. non-vacuity: the hypotheses are satisfiable by concrete non-trivial data, and the model computes -/

/-- a valid 2-thread schedule of a 6-iteration `prange` (interleaved, second thread backwards) -/
example : ([[0, 2, 4], [5, 3, 1]] : List (List Nat)).flatten.Perm (List.range 6) := by decide

/-- `(x₀ + 2x₁)(3x₀ − x₃)` under that schedule: `3x₀² + 6x₀x₁ − x₀x₃ − 2x₁x₃`, and the block length is `psi[6,2] = 21` -/
example : polyMulSched (K := Int) (mkTables 2) [1, 2, 0, 0, 0, 0] 1 [3, 0, 0, -1, 0, 0] 1 [[0, 2, 4], [5, 3, 1]]
    = [3, 6, 0, -1, 0, 0, 0, 0, -2, 0, 0, 0, 0, 0, 0, 0, 0, 0, 0, 0, 0] := by decide +kernel

example : ([1, 2, 0, 0, 0, 0] : List Int).length = psi 6 1 ∧ (2 : Nat) ≤ 63 ∧ 1 + 1 ≤ 2 := by decide

/-- ∂/∂x₀ of `3x₀² + 6x₀x₁` is `6x₀ + 6x₁`; `{x₀, x₃} = 1` -/
example : polyDiff (K := Int) (mkTables 2) [3, 6, 0, 0, 0, 0, 0, 0, 0, 0, 0, 0, 0, 0, 0, 0, 0, 0, 0, 0, 0] 0 2 = [6, 6, 0, 0, 0, 0] := by
  decide +kernel

example : polyPoisson (K := Int) (mkTables 2) (fun n => [List.range n]) [1, 0, 0, 0, 0, 0] 1 [0, 0, 0, 1, 0, 0] 1 = [1] := by
  decide +kernel

/-- a well-formed graded polynomial (`1 + x₀`, max_deg 1) and the truncated square `1 + 2x₀` -/
example : WF ([[1], [1, 0, 0, 0, 0, 0]] : GPoly Int) 1 := by
  refine ⟨rfl, fun d hd => ?_⟩
  have : d = 0 ∨ d = 1 := by omega
  rcases this with rfl | rfl <;> decide

example : polynomialMultiply (K := Int) (mkTables 1) (fun n => [List.range n]) [[1], [1, 0, 0, 0, 0, 0]] [[1], [1, 0, 0, 0, 0, 0]] 1
    = [[1], [2, 0, 0, 0, 0, 0]] := by decide +kernel

/-- `(1 + x₀)³` truncated at degree 2: `1 + 3x₀ + 3x₀²` -/
example : polynomialPower (K := Int) (mkTables 2) (fun n => [List.range n])
    [[1], [1, 0, 0, 0, 0, 0], [0, 0, 0, 0, 0, 0, 0, 0, 0, 0, 0, 0, 0, 0, 0, 0, 0, 0, 0, 0, 0]] 3 2
    = [[1], [3, 0, 0, 0, 0, 0], [3, 0, 0, 0, 0, 0, 0, 0, 0, 0, 0, 0, 0, 0, 0, 0, 0, 0, 0, 0, 0]] := by decide +kernel

/-! ## 4. substitution (`_substitute_linear`, `_substitute_affine`)

`substituteWith` (the loop shared by both functions) is `polynomialClean small (substituteCore …)`: the term loop
`substituteCore` (Lemmas/C06Subst.lean; definitionally the `polyNew` of `substituteWith`) followed by `_polynomial_clean`.
Graded lists are read as power series in a grading variable `t` (`Ser`, block `r` = coefficient of `t^r`), `tr N` cuts
after `t^N`.  `PowerSeries (MvPolynomial (Fin 6) K)` is a `K`-algebra (constants `a ↦ PowerSeries.C (MvPolynomial.C a)`),
so `MvPolynomial.aeval V Q` is "`Q` with every `x_i` replaced by the series `V i`". -/

section substitution
variable {K : Type} [CommRing K] [DecidableEq K]

/-- the model function is the clean-up applied to the term loop (pure unfolding) -/
theorem substitute_with_is_clean_of_core (clmo : List (List Nat)) (σ : Nat → List (List Nat)) (small : K → Bool)
    (V : List (GPoly K)) (P : GPoly K) (N : Nat) :
    substituteWith clmo σ small V P N = polynomialClean small (substituteCore clmo σ V P N) := rfl

/-- **add_inplace_spec** (`_polynomial_add_inplace(p, q, scale, max_deg)`): on well-formed operands no shape guard fires;
the result is well-formed and block `d` is `p[d] + scale·q[d]` — through each of the three code paths (`scale = 1`: add,
`scale = -1`: subtract, otherwise: scale then add) -/
theorem add_inplace_spec {N : Nat} (T : List (List Nat)) (P Q : GPoly K) (hP : WF P N) (hQ : WF Q N) (s : K) :
    WF (polynomialAddInplace P Q s N) N ∧
    (∀ d, d ≤ N → toMv T d ((polynomialAddInplace P Q s N).getD d []) = toMv T d (P.getD d []) + C s * toMv T d (Q.getD d [])) ∧
    Ser T N (polynomialAddInplace P Q s N) = Ser T N P + PowerSeries.C (C s) * Ser T N Q :=
  ⟨WF_addInplace P Q hP hQ s, fun d hd => (addInplace_block T P Q hP hQ s d hd).2, Ser_addInplace T P Q hP hQ s⟩

/-- **substitute_core_spec** (the term loop of `_substitute_linear` / `_substitute_affine`, before the final clean): for
six well-formed variable polynomials `V₀..V₅` the computed `poly_new` is well-formed and, as a series in the grading
variable, it is the truncation at degree `N` of `P(V₀,…,V₅)`, `P = Σ_{d ≤ N} P[d]` — for every scheduler of the nested
`_poly_mul` kernels, with the `np.any` block shortcut, the `coeff == 0` skip, the `e == 0` skip, binary powers and the
truncation after every product.  No shape hypothesis on `P` is needed (slot `pos` of block `deg` is read as the
monomial `decode pos deg`; blocks above `N` are not read). -/
theorem substitute_core_spec {D N : Nat} (hD : D ≤ 63) (hN : N ≤ D) (σ : Nat → List (List Nat))
    (hσ : ∀ n, (σ n).flatten.Perm (List.range n)) (V : List (GPoly K)) (hV : ∀ i, i < 6 → WF (V.getD i []) N)
    (P : GPoly K) :
    WF (substituteCore (mkTables D) σ V P N) N ∧
    Ser (mkTables D) N (substituteCore (mkTables D) σ V P N)
      = tr N (aeval (fun i : Fin 6 => Ser (mkTables D) N (V.getD i.val []))
          (∑ d ∈ Finset.range (N + 1), toMv (mkTables D) d (P.getD d []))) :=
  Ser_substituteCore hD hN σ hσ V hV P

/-- one term of the loop: `coeff · Π_i V_i^{k_i}` (products and powers truncated at `N` at every step, exponent-0
factors skipped) is the truncated image of the monomial `coeff · x^k` -/
theorem substitute_term_spec {D N : Nat} (hD : D ≤ 63) (hN : N ≤ D) (σ : Nat → List (List Nat))
    (hσ : ∀ n, (σ n).flatten.Perm (List.range n)) (V : List (GPoly K)) (hV : ∀ i, i < 6 → WF (V.getD i []) N) (c : K)
    (k : List Nat) :
    WF (substTerm (mkTables D) σ V N c k) N ∧
    Ser (mkTables D) N (substTerm (mkTables D) σ V N c k)
      = tr N (aeval (fun i : Fin 6 => Ser (mkTables D) N (V.getD i.val [])) (monomial (mono k) c)) :=
  Ser_substTerm hD hN σ hσ V hV c k

/-- **polynomial_variable_spec** (`_polynomial_variable(j, max_deg)`, `max_deg ≥ 1`): well-formed, block 1 is `x_j`, every
other block is zero -/
theorem polynomial_variable_spec {D N : Nat} (hD : D ≤ 63) (hN : N ≤ D) (h1 : 1 ≤ N) (j : Fin 6) :
    WF (polynomialVariable (mkTables D) j.val N : GPoly K) N ∧ ∀ r, r ≤ N →
      toMv (mkTables D) r ((polynomialVariable (mkTables D) j.val N : GPoly K).getD r []) = if r = 1 then X j else 0 :=
  polynomialVariable_spec hD hN h1 j

/-- **linear_variable_polys_spec** (`_linear_variable_polys(C, max_deg)`, `max_deg ≥ 1`): six polynomials; `L[i]` is
well-formed, its block 1 is the linear form `linForm M i = Σ_j M[i][j]·x_j` (missing table entries count as 0; zero
entries are skipped by the code) and all other blocks vanish, i.e. `Ser L[i] = (Σ_j M[i][j]·x_j)·t`. -/
theorem linear_variable_polys_spec {D N : Nat} (hD : D ≤ 63) (hN : N ≤ D) (h1 : 1 ≤ N) (M : List (List K)) :
    (linearVariablePolys (mkTables D) M N).length = 6 ∧ ∀ i, i < 6 →
      WF ((linearVariablePolys (mkTables D) M N).getD i []) N ∧
      (∀ r, r ≤ N → toMv (mkTables D) r (((linearVariablePolys (mkTables D) M N).getD i []).getD r [])
        = if r = 1 then ∑ j : Fin 6, C ((M.getD i []).getD j.val 0) * X j else 0) ∧
      Ser (mkTables D) N ((linearVariablePolys (mkTables D) M N).getD i [])
        = PowerSeries.C (∑ j : Fin 6, C ((M.getD i []).getD j.val 0) * X j) * PowerSeries.X :=
  ⟨length_linearVariablePolys _ M N, fun i hi => Ser_linearVariablePolys hD hN h1 M i hi⟩

/-- **affine_variable_polys_spec** (`_linear_affine_variable_polys`): `A[i] = shifts[i] + Σ_j M[i][j]·x_j`: block 0 is the
constant, block 1 the linear form, the rest zero; `Ser A[i] = shifts[i] + (Σ_j M[i][j]·x_j)·t` -/
theorem affine_variable_polys_spec {D N : Nat} (hD : D ≤ 63) (hN : N ≤ D) (h1 : 1 ≤ N) (M : List (List K)) (sh : List K) :
    (affineVariablePolys (mkTables D) M sh N).length = 6 ∧ ∀ i, i < 6 →
      WF ((affineVariablePolys (mkTables D) M sh N).getD i []) N ∧
      (∀ r, r ≤ N → toMv (mkTables D) r (((affineVariablePolys (mkTables D) M sh N).getD i []).getD r [])
        = if r = 0 then C (sh.getD i 0) else if r = 1 then linForm M i else 0) ∧
      Ser (mkTables D) N ((affineVariablePolys (mkTables D) M sh N).getD i [])
        = PowerSeries.C (C (sh.getD i 0)) + PowerSeries.C (linForm M i) * PowerSeries.X :=
  ⟨length_affineVariablePolys _ M sh N, fun i hi => Ser_affineVariablePolys hD hN h1 M sh i hi⟩

/-- **clean_spec** (`_polynomial_clean`): shapes are kept; every coefficient is either kept or, when `small` accepts it
(`|c| ≤ tol`), replaced by 0; with a `small` that accepts nothing the list is unchanged -/
theorem clean_spec (small : K → Bool) (P : GPoly K) :
    (polynomialClean small P).length = P.length ∧
    (∀ d, ((polynomialClean small P).getD d []).length = (P.getD d []).length) ∧
    (∀ d i, ((polynomialClean small P).getD d []).getD i 0
      = if small ((P.getD d []).getD i 0) then 0 else (P.getD d []).getD i 0) ∧
    polynomialClean (fun _ => false) P = P :=
  ⟨length_clean small P, length_clean_block small P, clean_coeff small P, clean_none P⟩

/-- **substitute_linear_block_spec** (headline, term loop): block `r ≤ N` of the term loop run on the linear variable
polynomials is block `r` of the input composed with the linear map: `P_r(M·x)`, where `aeval` replaces `x_i` by
`linForm M i = Σ_j M[i][j]·x_j` — degree by degree, nothing is truncated away; any scheduler. -/
theorem substitute_linear_block_spec {D N : Nat} (hD : D ≤ 63) (hN : N ≤ D) (h1 : 1 ≤ N) (σ : Nat → List (List Nat))
    (hσ : ∀ n, (σ n).flatten.Perm (List.range n)) (M : List (List K)) (P : GPoly K) (hP : WF P N) :
    WF (substituteCore (mkTables D) σ (linearVariablePolys (mkTables D) M N) P N) N ∧ ∀ r, r ≤ N →
    toMv (mkTables D) r ((substituteCore (mkTables D) σ (linearVariablePolys (mkTables D) M N) P N).getD r [])
      = aeval (fun i : Fin 6 => linForm M i.val) (toMv (mkTables D) r (P.getD r [])) :=
  substituteCore_linear_block hD hN h1 σ hσ M P hP

/-- **substitute_linear_spec** (`_substitute_linear`, the whole function): the result is well-formed and slot `i` of block
`r` holds the coefficient `c` of the monomial `decode i r` in `P_r(M·x)` — or `0` when `small c` (`|c| ≤ tol`); with a
`small` that accepts nothing the substitution is exact. -/
theorem substitute_linear_spec {D N : Nat} (hD : D ≤ 63) (hN : N ≤ D) (h1 : 1 ≤ N) (σ : Nat → List (List Nat))
    (hσ : ∀ n, (σ n).flatten.Perm (List.range n)) (small : K → Bool) (M : List (List K)) (P : GPoly K) (hP : WF P N) :
    WF (substituteLinear (mkTables D) σ small P M N) N ∧
    (∀ r, r ≤ N → ∀ i, i < psi 6 r →
      ((substituteLinear (mkTables D) σ small P M N).getD r []).getD i 0
        = (let c := coeff (mono (decode (mkTables D) i r))
              (aeval (fun i : Fin 6 => linForm M i.val) (toMv (mkTables D) r (P.getD r [])))
           if small c then 0 else c)) ∧
    (∀ r, r ≤ N → toMv (mkTables D) r ((substituteLinear (mkTables D) σ (fun _ => false) P M N).getD r [])
      = aeval (fun i : Fin 6 => linForm M i.val) (toMv (mkTables D) r (P.getD r []))) :=
  ⟨(substituteLinear_coeff hD hN h1 σ hσ small M P hP).1, (substituteLinear_coeff hD hN h1 σ hσ small M P hP).2,
    fun r hr => substituteLinear_exact hD hN h1 σ hσ M P hP r hr⟩

/-- **substitute_affine_spec** (`_substitute_affine`, term loop): as a series in `t` the result is the truncation at `t^N`
of `P(δ + t·M·x)`; equivalently block `r ≤ N` is the homogeneous component of degree `r` of `P(M·x + δ)`,
`P = Σ_{d ≤ N} P[d]`.  Any scheduler, any input list. -/
theorem substitute_affine_spec {D N : Nat} (hD : D ≤ 63) (hN : N ≤ D) (h1 : 1 ≤ N) (σ : Nat → List (List Nat))
    (hσ : ∀ n, (σ n).flatten.Perm (List.range n)) (M : List (List K)) (sh : List K) (P : GPoly K) :
    WF (substituteCore (mkTables D) σ (affineVariablePolys (mkTables D) M sh N) P N) N ∧
    Ser (mkTables D) N (substituteCore (mkTables D) σ (affineVariablePolys (mkTables D) M sh N) P N)
      = tr N (aeval (fun i : Fin 6 => PowerSeries.C (C (sh.getD i.val 0)) + PowerSeries.C (linForm M i.val) * PowerSeries.X)
          (∑ d ∈ Finset.range (N + 1), toMv (mkTables D) d (P.getD d []))) ∧
    ∀ r, r ≤ N →
      toMv (mkTables D) r ((substituteCore (mkTables D) σ (affineVariablePolys (mkTables D) M sh N) P N).getD r [])
        = homogeneousComponent r (aeval (fun i : Fin 6 => C (sh.getD i.val 0) + linForm M i.val)
            (∑ d ∈ Finset.range (N + 1), toMv (mkTables D) d (P.getD d []))) :=
  ⟨(Ser_substituteCore_affine hD hN h1 σ hσ M sh P).1, (Ser_substituteCore_affine hD hN h1 σ hσ M sh P).2,
    fun r hr => substituteCore_affine_block hD hN h1 σ hσ M sh P r hr⟩

/-- **substitute_affine_total_spec**: for a well-formed input the blocks `0..N` computed by the term loop add up to
`P(M·x + δ)` exactly — the truncation at `max_deg` removes nothing (an affine map does not raise the degree) -/
theorem substitute_affine_total_spec {D N : Nat} (hD : D ≤ 63) (hN : N ≤ D) (h1 : 1 ≤ N) (σ : Nat → List (List Nat))
    (hσ : ∀ n, (σ n).flatten.Perm (List.range n)) (M : List (List K)) (sh : List K) (P : GPoly K) (hP : WF P N) :
    ∑ r ∈ Finset.range (N + 1),
        toMv (mkTables D) r ((substituteCore (mkTables D) σ (affineVariablePolys (mkTables D) M sh N) P N).getD r [])
      = aeval (fun i : Fin 6 => C (sh.getD i.val 0) + linForm M i.val)
          (∑ d ∈ Finset.range (N + 1), toMv (mkTables D) d (P.getD d [])) :=
  substituteCore_affine_total hD hN h1 σ hσ M sh P hP

/-- **substitute_affine_coeff_spec** (`_substitute_affine`, the whole function): the result is well-formed and slot `i` of
block `r` holds the coefficient `c` of the monomial `decode i r` in `P(M·x + δ)` — or `0` when `small c` (`|c| ≤ tol`) -/
theorem substitute_affine_coeff_spec {D N : Nat} (hD : D ≤ 63) (hN : N ≤ D) (h1 : 1 ≤ N) (σ : Nat → List (List Nat))
    (hσ : ∀ n, (σ n).flatten.Perm (List.range n)) (small : K → Bool) (M : List (List K)) (sh : List K) (P : GPoly K) :
    WF (substituteAffine (mkTables D) σ small P M sh N) N ∧ ∀ r, r ≤ N → ∀ i, i < psi 6 r →
      ((substituteAffine (mkTables D) σ small P M sh N).getD r []).getD i 0
        = (let c := coeff (mono (decode (mkTables D) i r))
              (aeval (fun i : Fin 6 => C (sh.getD i.val 0) + linForm M i.val)
                (∑ d ∈ Finset.range (N + 1), toMv (mkTables D) d (P.getD d [])))
           if small c then 0 else c) :=
  substituteAffine_coeff hD hN h1 σ hσ small M sh P

end substitution

/-! ### non-vacuity of §4 -/

/-- `x₀ ↦ x₀ + 2x₁` (other variables fixed) in `3x₀²`: `3x₀² + 12x₀x₁ + 12x₁²`, under a reversed single-thread schedule -/
example : substituteLinear (K := Int) (mkTables 2) (fun n => [(List.range n).reverse]) (fun _ => false)
    [[0], [0, 0, 0, 0, 0, 0], [3, 0, 0, 0, 0, 0, 0, 0, 0, 0, 0, 0, 0, 0, 0, 0, 0, 0, 0, 0, 0]]
    [[1, 2, 0, 0, 0, 0], [0, 1, 0, 0, 0, 0], [0, 0, 1, 0, 0, 0], [0, 0, 0, 1, 0, 0], [0, 0, 0, 0, 1, 0], [0, 0, 0, 0, 0, 1]] 2
    = [[0], [0, 0, 0, 0, 0, 0], [3, 12, 0, 0, 0, 0, 12, 0, 0, 0, 0, 0, 0, 0, 0, 0, 0, 0, 0, 0, 0]] := by decide +kernel

/-- the same with `small c ⇔ |c| ≤ 3`: the coefficient 3 is cleaned away, the 12s stay -/
example : substituteLinear (K := Int) (mkTables 2) (fun n => [List.range n]) (fun c => decide (c.natAbs ≤ 3))
    [[0], [0, 0, 0, 0, 0, 0], [3, 0, 0, 0, 0, 0, 0, 0, 0, 0, 0, 0, 0, 0, 0, 0, 0, 0, 0, 0, 0]]
    [[1, 2, 0, 0, 0, 0], [0, 1, 0, 0, 0, 0], [0, 0, 1, 0, 0, 0], [0, 0, 0, 1, 0, 0], [0, 0, 0, 0, 1, 0], [0, 0, 0, 0, 0, 1]] 2
    = [[0], [0, 0, 0, 0, 0, 0], [0, 12, 0, 0, 0, 0, 12, 0, 0, 0, 0, 0, 0, 0, 0, 0, 0, 0, 0, 0, 0]] := by decide +kernel

/-- `x₀ ↦ x₀ + 2x₁ + 1` in `3x₀²`: `3 + (6x₀ + 12x₁) + (3x₀² + 12x₀x₁ + 12x₁²)` -/
example : substituteAffine (K := Int) (mkTables 2) (fun n => [List.range n]) (fun _ => false)
    [[0], [0, 0, 0, 0, 0, 0], [3, 0, 0, 0, 0, 0, 0, 0, 0, 0, 0, 0, 0, 0, 0, 0, 0, 0, 0, 0, 0]]
    [[1, 2, 0, 0, 0, 0], [0, 1, 0, 0, 0, 0], [0, 0, 1, 0, 0, 0], [0, 0, 0, 1, 0, 0], [0, 0, 0, 0, 1, 0], [0, 0, 0, 0, 0, 1]]
    [1, 0, 0, 0, 0, 0] 2
    = [[3], [6, 12, 0, 0, 0, 0], [3, 12, 0, 0, 0, 0, 12, 0, 0, 0, 0, 0, 0, 0, 0, 0, 0, 0, 0, 0, 0]] := by decide +kernel

/-- the variable polynomials of that example: `L[0] = x₀ + 2x₁`, `A[0] = 5 + x₀ + 2x₁` -/
example : (linearVariablePolys (K := Int) (mkTables 2)
      [[1, 2, 0, 0, 0, 0], [0, 1, 0, 0, 0, 0], [0, 0, 1, 0, 0, 0], [0, 0, 0, 1, 0, 0], [0, 0, 0, 0, 1, 0], [0, 0, 0, 0, 0, 1]] 2).getD 0 []
    = [[0], [1, 2, 0, 0, 0, 0], [0, 0, 0, 0, 0, 0, 0, 0, 0, 0, 0, 0, 0, 0, 0, 0, 0, 0, 0, 0, 0]] ∧
  (affineVariablePolys (K := Int) (mkTables 2)
      [[1, 2, 0, 0, 0, 0], [0, 1, 0, 0, 0, 0], [0, 0, 1, 0, 0, 0], [0, 0, 0, 1, 0, 0], [0, 0, 0, 0, 1, 0], [0, 0, 0, 0, 0, 1]]
      [5, 0, 0, 0, 0, 0] 2).getD 0 []
    = [[5], [1, 2, 0, 0, 0, 0], [0, 0, 0, 0, 0, 0, 0, 0, 0, 0, 0, 0, 0, 0, 0, 0, 0, 0, 0, 0, 0]] := by decide +kernel

/-- the hypotheses of `substitute_linear_spec` hold for that input: it is well-formed for `N = 2` -/
example : WF ([[0], [0, 0, 0, 0, 0, 0], [3, 0, 0, 0, 0, 0, 0, 0, 0, 0, 0, 0, 0, 0, 0, 0, 0, 0, 0, 0, 0]] : GPoly Int) 2 := by
  refine ⟨rfl, fun d hd => ?_⟩
  have : d = 0 ∨ d = 1 ∨ d = 2 := by omega
  rcases this with rfl | rfl | rfl <;> decide

/-- `max_deg = 0` (excluded by `1 ≤ N`): `_polynomial_variable` has no block 1 to write to and returns the zero
polynomial, so every `L[i]` is zero — the hypothesis `1 ≤ N` of the variable-polynomial theorems is necessary -/
example : polynomialVariable (K := Int) (mkTables 2) 0 0 = [[0]] := by decide +kernel

/-! ## 5. jacobian and degree

`_polynomial_jacobian`, `_polynomial_degree`, `_get_degree`, `_polynomial_total_degree` (operations.py). -/

section jacobian
variable {K : Type} [CommSemiring K] [DecidableEq K]

/-- **jacobian_spec** (`_polynomial_jacobian`): under the hypotheses of `differentiate_spec` the result has six entries, entry `v`
is `_polynomial_differentiate(P, v, max_deg)` — hence well-formed for `max(max_deg-1,0)` — and its block `r` is `∂/∂x_v` of
block `r+1` of the input (any scheduler) -/
theorem jacobian_spec {D N : Nat} (hD : D ≤ 63) (hN : N ≤ D) (σ : Nat → List (List Nat))
    (hσ : ∀ n, (σ n).flatten.Perm (List.range n)) (P : GPoly K) (hP : WF P N) :
    (polynomialJacobian (mkTables D) σ P N).length = 6 ∧ ∀ v : Fin 6,
      (polynomialJacobian (mkTables D) σ P N).getD v.val [] = polynomialDifferentiate (mkTables D) σ P v.val N ∧
      WF ((polynomialJacobian (mkTables D) σ P N).getD v.val []) (N - 1) ∧ ∀ r, r + 1 ≤ N →
        toMv (mkTables D) r (((polynomialJacobian (mkTables D) σ P N).getD v.val []).getD r [])
          = pderiv v (toMv (mkTables D) (r + 1) (P.getD (r + 1) [])) :=
  toMv_polynomialJacobian hD hN σ hσ P hP

end jacobian

section degree
variable {K : Type} [OfNat K 0] [DecidableEq K]

/-- **degree_spec** (`_polynomial_degree`, any list of blocks): `-1` iff no block has a non-zero entry; the value `d` is an
index of the list whose block has a non-zero entry and above which no block has one -/
theorem degree_spec (P : GPoly K) :
    (polynomialDegree P = -1 ↔ ∀ d, d < P.length → anyNZ (P.getD d []) = false) ∧
    ∀ d : Nat, polynomialDegree P = (d : Int) →
      d < P.length ∧ anyNZ (P.getD d []) = true ∧ ∀ e, d < e → e < P.length → anyNZ (P.getD e []) = false :=
  ⟨polynomialDegree_eq_neg_one P, polynomialDegree_eq_nat P⟩

/-- converse of the second half of `degree_spec`: the characterisation determines the returned value -/
theorem degree_spec_converse (P : GPoly K) (d : Nat) (hd : d < P.length) (hnz : anyNZ (P.getD d []) = true)
    (htop : ∀ e, d < e → e < P.length → anyNZ (P.getD e []) = false) : polynomialDegree P = (d : Int) :=
  polynomialDegree_of_top P d hd hnz htop

end degree

section degreeSem
variable {K : Type} [CommSemiring K] [DecidableEq K]

/-- **degree_spec**, semantic reading on a well-formed list: if `_polynomial_degree` returns `d` then block `d` denotes a
non-zero polynomial and every higher block denotes `0` -/
theorem degree_sem_spec {D N : Nat} (hD : D ≤ 63) (hN : N ≤ D) (P : GPoly K) (hP : WF P N) (d : Nat)
    (h : polynomialDegree P = (d : Int)) :
    d ≤ N ∧ toMv (mkTables D) d (P.getD d []) ≠ 0 ∧ ∀ e, d < e → e ≤ N → toMv (mkTables D) e (P.getD e []) = 0 :=
  toMv_polynomialDegree_nat hD hN P hP d h

/-- … and if it returns `-1` every block denotes `0` -/
theorem degree_sem_spec_zero {D N : Nat} (P : GPoly K) (hP : WF P N) (h : polynomialDegree P = -1) :
    ∀ e, e ≤ N → toMv (mkTables D) e (P.getD e []) = 0 :=
  toMv_polynomialDegree_neg_one P hP h

/-- `_get_degree`: a block of length `psi[6, d]` with `d` inside the table (`d ≤ Dt`) has degree `d` (`psi[6, ·]` is strictly
increasing, so the first column with that entry is `d`) -/
theorem get_degree_spec (Dt d : Nat) (hd : d ≤ Dt) (b : List K) (hb : b.length = psi 6 d) : getDegree Dt b = (d : Int) :=
  getDegree_of_length Dt d hd b hb

/-- **total_degree_eq_degree**: on a well-formed list whose degrees are inside the psi table (`N ≤ Dt`; the live table has
`Dt = 30`) `_polynomial_total_degree` and `_polynomial_degree` return the same value -/
theorem total_degree_eq_degree {N : Nat} (Dt : Nat) (hDt : N ≤ Dt) (P : GPoly K) (hP : WF P N) :
    polynomialTotalDegree Dt P = polynomialDegree P :=
  polynomialTotalDegree_eq_polynomialDegree Dt hDt P hP

end degreeSem

/-- non-vacuity: a constant, a linear polynomial, the zero polynomial -/
example : polynomialDegree ([[1], [0, 0, 0, 0, 0, 0]] : GPoly Int) = 0 := by decide +kernel
example : polynomialTotalDegree 30 ([[0], [0, 2, 0, 0, 0, 0]] : GPoly Int) = 1 := by decide +kernel
example : polynomialDegree ([[0], [0, 2, 0, 0, 0, 0]] : GPoly Int) = 1 := by decide +kernel
example : polynomialDegree ([[0]] : GPoly Int) = -1 ∧ polynomialTotalDegree 30 ([[0]] : GPoly Int) = -1 := by decide +kernel
example : polynomialDegree ([] : GPoly Int) = -1 ∧ polynomialTotalDegree 30 ([] : GPoly Int) = -1 := by decide +kernel

/-- the `WF` hypothesis of `total_degree_eq_degree` is sharp: a block of the wrong length (2 slots at index 1) is ignored by
`_polynomial_total_degree` and counted by `_polynomial_degree` -/
example : polynomialTotalDegree 30 ([[0], [1, 1]] : GPoly Int) = -1 ∧ polynomialDegree ([[0], [1, 1]] : GPoly Int) = 1 := by
  decide +kernel

/-- … and so is `N ≤ Dt`: a well-formed list beyond the table (`Dt = 0`) has total degree `-1` -/
example : polynomialTotalDegree 0 ([[0], [0, 2, 0, 0, 0, 0]] : GPoly Int) = -1 := by decide +kernel

/-- the six entries of a jacobian (`x₀x₁` at `N = 2`, one thread): `∂/∂x₀ = x₁`, `∂/∂x₁ = x₀`, the rest `0` -/
example : (polynomialJacobian (K := Int) (mkTables 2) (fun n => [List.range n])
      [[0], [0, 0, 0, 0, 0, 0], [0, 1, 0, 0, 0, 0, 0, 0, 0, 0, 0, 0, 0, 0, 0, 0, 0, 0, 0, 0, 0]] 2)
    = [[[0], [0, 1, 0, 0, 0, 0]], [[0], [1, 0, 0, 0, 0, 0]], [[0], [0, 0, 0, 0, 0, 0]], [[0], [0, 0, 0, 0, 0, 0]],
       [[0], [0, 0, 0, 0, 0, 0]], [[0], [0, 0, 0, 0, 0, 0]]] := by decide +kernel

end HitenModel.C06
