"""Concolic tracer: runs the *current* Python source of a numerical kernel on symbolic values.

Every symbolic value (`Sym`) carries a concrete shadow float, so data-dependent branches are
decided concretely and recorded as path conditions.  Arrays are ordinary numpy ``dtype=object``
arrays of `Sym`, which gives numpy's real view/alias semantics for free (slices alias their
buffer, ``+=`` mutates in place, ``reshape``/``ravel`` behave as in the real code).

The result of a trace is an expression DAG over
    var | const(exact rational of the float literal) | + - * / | neg | ^n | sqrt | sin | cos | app(F,i,args)
which `lean_emit.py` prints as a term of the Lean type `HitenModel.RE`.

Nothing in here parses source text: the function object is taken from the imported module
(`.py_func` of the numba dispatcher), its globals are rebound (``np`` -> shim, numba-compiled callees ->
their own retargeted python bodies) and it is *executed*.
"""
from __future__ import annotations

import fractions
import math
import types

import numpy as _np

Fraction = fractions.Fraction


class TraceCtx:
    """Global trace context: hash-consing table and recorded path conditions."""

    def __init__(self):
        self.table = {}
        self.path = []      # list of (op, lhs Sym, rhs Sym, outcome bool)
        self.calls = []     # free-form call log used by recorders


CTX = TraceCtx()


def reset():
    global CTX
    CTX = TraceCtx()
    return CTX


def _exact(x):
    """Exact rational value of a Python/numpy number (float literals become their dyadic value)."""
    if isinstance(x, bool):
        return Fraction(int(x))
    if isinstance(x, (int, _np.integer)):
        return Fraction(int(x))
    if isinstance(x, Fraction):
        return x
    xf = float(x)
    if math.isnan(xf) or math.isinf(xf):
        raise ValueError("non-finite constant in trace: %r" % (x,))
    return Fraction(xf)


class Sym:
    __slots__ = ("op", "args", "val", "_hash")

    def __new__(cls, op, args, val):
        key = (op,) + tuple(id(a) if isinstance(a, Sym) else a for a in args)
        hit = CTX.table.get(key)
        if hit is not None:
            return hit
        self = object.__new__(cls)
        self.op = op
        self.args = args
        self.val = val
        self._hash = hash(key)
        CTX.table[key] = self
        return self

    # ---- constructors -------------------------------------------------
    @staticmethod
    def var(name, val):
        return Sym("var", (name,), float(val))

    @staticmethod
    def const(x):
        q = _exact(x)
        return Sym("const", (q,), float(q))

    @staticmethod
    def lift(x):
        if isinstance(x, Sym):
            return x
        if isinstance(x, (int, float, _np.floating, _np.integer, Fraction, bool)):
            return Sym.const(x)
        if isinstance(x, _np.ndarray) and x.shape == ():
            return Sym.lift(x.item())
        raise TypeError("cannot lift %r into a Sym" % (type(x),))

    def is_const(self, q=None):
        return self.op == "const" and (q is None or self.args[0] == q)

    # the traced code occasionally takes `.real` / `.imag` of a value that is real in the property's domain
    @property
    def real(self):
        return self

    @property
    def imag(self):
        return 0.0

    # ---- arithmetic (light, real-sound simplification: x+0, x*1, x*0, const folding) ---
    def __add__(self, o):
        if isinstance(o, _np.ndarray):
            return NotImplemented
        o = Sym.lift(o)
        if self.is_const() and o.is_const():
            return Sym.const(self.args[0] + o.args[0])
        if self.is_const(0):
            return o
        if o.is_const(0):
            return self
        return Sym("add", (self, o), self.val + o.val)

    def __radd__(self, o):
        return Sym.lift(o).__add__(self)

    def __sub__(self, o):
        if isinstance(o, _np.ndarray):
            return NotImplemented
        o = Sym.lift(o)
        if self.is_const() and o.is_const():
            return Sym.const(self.args[0] - o.args[0])
        if o.is_const(0):
            return self
        if self.is_const(0):
            return -o
        return Sym("sub", (self, o), self.val - o.val)

    def __rsub__(self, o):
        return Sym.lift(o).__sub__(self)

    def __mul__(self, o):
        if isinstance(o, _np.ndarray):
            return NotImplemented
        o = Sym.lift(o)
        if self.is_const() and o.is_const():
            return Sym.const(self.args[0] * o.args[0])
        if self.is_const(0) or o.is_const(0):
            return Sym.const(0)
        if self.is_const(1):
            return o
        if o.is_const(1):
            return self
        # real-sound for EVERY real a (Real.sqrt a = 0 for a < 0): a * sqrt(a)^k = sqrt(a)^(k+2), k >= 1.  Codes write r^3 as
        # r**3, r2**1.5 or r2*sqrt(r2); folding them into one shape keeps the sqrt value an atom of the algebraic identities.
        for x, y in ((self, o), (o, self)):
            k = y._sqrt_power_of(x)
            if k:
                r = y if k == 1 else y.args[0]
                return r ** (k + 2)
        return Sym("mul", (self, o), self.val * o.val)

    def _sqrt_power_of(self, a):
        """k >= 1 if self is sqrt(a)^k for exactly the node a, else 0"""
        if self.op == "sqrt" and self.args[0] is a:
            return 1
        if self.op == "pow" and self.args[0].op == "sqrt" and self.args[0].args[0] is a:
            return int(self.args[1])
        return 0

    def __rmul__(self, o):
        return Sym.lift(o).__mul__(self)

    def __truediv__(self, o):
        if isinstance(o, _np.ndarray):
            return NotImplemented
        o = Sym.lift(o)
        if o.is_const() and o.args[0] != 0:
            if self.is_const():
                return Sym.const(self.args[0] / o.args[0])
            if o.is_const(1):
                return self
        if self.is_const(0):
            return Sym.const(0)
        try:
            v = self.val / o.val
        except ZeroDivisionError:
            v = float("nan")
        return Sym("div", (self, o), v)

    def __rtruediv__(self, o):
        return Sym.lift(o).__truediv__(self)

    def __neg__(self):
        if self.is_const():
            return Sym.const(-self.args[0])
        if self.op == "neg":
            return self.args[0]
        return Sym("neg", (self,), -self.val)

    def __pos__(self):
        return self

    ABS_AS_SQRT = False

    def __abs__(self):
        if Sym.ABS_AS_SQRT:
            # |a| = sqrt(a^2) for every real a: no case split, and `a**2 * abs(a)` folds to sqrt(a^2)^3 like `(a**2)**1.5`
            return (self ** 2).sqrt()
        # decided concretely, recorded as a path condition
        if self < 0:
            return -self
        return self

    def __pow__(self, e):
        if isinstance(e, Sym):
            if not e.is_const():
                raise TypeError("symbolic exponent")
            e = e.args[0]
        q = _exact(e)
        if q.denominator == 1:
            n = int(q)
            if n >= 0:
                if self.is_const():
                    return Sym.const(self.args[0] ** n)
                if n == 1:
                    return self
                if n == 0:
                    return Sym.const(1)
                return Sym("pow", (self, n), self.val ** n)
            return Sym.const(1) / (self ** (-n))
        if q.denominator == 2:
            n = q.numerator
            r = self.sqrt()
            return r ** n
        if abs(float(q) - 1.0 / 3.0) < 1e-15:
            # cube root: an *atom* (op "cbrt") with the side relation atom^3 = argument, emitted as a fresh variable
            v = math.copysign(abs(self.val) ** (1.0 / 3.0), self.val)
            return Sym("cbrt", (self,), v)
        raise TypeError("unsupported exponent %r" % (e,))

    def sqrt(self):
        if self.is_const():
            q = self.args[0]
            rn, rd = math.isqrt(q.numerator) if q.numerator >= 0 else -1, math.isqrt(q.denominator)
            if rn >= 0 and rn * rn == q.numerator and rd * rd == q.denominator:
                return Sym.const(Fraction(rn, rd))
        v = math.sqrt(self.val) if self.val >= 0 else float("nan")
        return Sym("sqrt", (self,), v)

    def sin(self):
        return Sym("sin", (self,), math.sin(self.val))

    def cos(self):
        return Sym("cos", (self,), math.cos(self.val))

    # ---- comparisons: concrete decision + path condition ----------------
    def _cmp(self, o, op, f):
        o = Sym.lift(o)
        out = bool(f(self.val, o.val))
        if not (self.is_const() and o.is_const()):
            CTX.path.append((op, self, o, out))
        return out

    def __lt__(self, o):
        return self._cmp(o, "lt", lambda a, b: a < b)

    def __le__(self, o):
        return self._cmp(o, "le", lambda a, b: a <= b)

    def __gt__(self, o):
        return self._cmp(o, "gt", lambda a, b: a > b)

    def __ge__(self, o):
        return self._cmp(o, "ge", lambda a, b: a >= b)

    def __eq__(self, o):
        if not isinstance(o, (Sym, int, float, _np.floating, _np.integer)):
            return NotImplemented
        return self._cmp(o, "eq", lambda a, b: a == b)

    def __ne__(self, o):
        if not isinstance(o, (Sym, int, float, _np.floating, _np.integer)):
            return NotImplemented
        return self._cmp(o, "ne", lambda a, b: a != b)

    def __hash__(self):
        return self._hash

    def __bool__(self):
        raise TypeError("truth value of a Sym (use a comparison)")

    def __float__(self):
        # formatting in log messages etc.; never used for arithmetic by the shim
        return float(self.val)

    def __format__(self, spec):
        return format(self.val, spec)

    def __repr__(self):
        return "Sym<%s>" % show(self, 200)


def show(s, limit=10 ** 9):
    out = []

    def go(s):
        if len(out) > limit:
            return
        if not isinstance(s, Sym):
            out.append(repr(s))
            return
        if s.op == "var":
            out.append(str(s.args[0]))
        elif s.op == "const":
            out.append(str(s.args[0]))
        elif s.op == "app":
            out.append("%s[%d](" % (s.args[0], s.args[1]))
            for a in s.args[2:]:
                go(a)
                out.append(",")
            out.append(")")
        else:
            out.append(s.op + "(")
            for a in s.args:
                go(a)
                out.append(",")
            out.append(")")

    go(s)
    return "".join(out)[:limit]


def app(name, i, args, val=0.0):
    """Uninterpreted function symbol application (component i of F(args))."""
    return Sym("app", (name, i) + tuple(Sym.lift(a) for a in args), float(val))


def evalf(s, env, cache=None):
    """Evaluate a Sym DAG in floats with variable environment `env` (name -> float) and
    uninterpreted symbols `env['__apps__'][name](i, *args)`."""
    if cache is None:
        cache = {}

    def go(s):
        k = id(s)
        if k in cache:
            return cache[k]
        op = s.op
        if op == "var":
            r = float(env[s.args[0]])
        elif op == "const":
            r = float(s.args[0])
        elif op == "add":
            r = go(s.args[0]) + go(s.args[1])
        elif op == "sub":
            r = go(s.args[0]) - go(s.args[1])
        elif op == "mul":
            r = go(s.args[0]) * go(s.args[1])
        elif op == "div":
            r = go(s.args[0]) / go(s.args[1])
        elif op == "neg":
            r = -go(s.args[0])
        elif op == "pow":
            r = go(s.args[0]) ** s.args[1]
        elif op == "sqrt":
            r = math.sqrt(go(s.args[0]))
        elif op == "cbrt":
            a = go(s.args[0])
            r = math.copysign(abs(a) ** (1.0 / 3.0), a)
        elif op == "sin":
            r = math.sin(go(s.args[0]))
        elif op == "cos":
            r = math.cos(go(s.args[0]))
        elif op == "app":
            r = env["__apps__"][s.args[0]](s.args[1], *[go(a) for a in s.args[2:]])
        else:
            raise ValueError(op)
        cache[k] = r
        return r

    return go(s)


def evalq(s, env, cache=None):
    """Exact rational evaluation (no sqrt/sin/cos/app unless exact)."""
    if cache is None:
        cache = {}

    def go(s):
        k = id(s)
        if k in cache:
            return cache[k]
        op = s.op
        if op == "var":
            r = Fraction(env[s.args[0]])
        elif op == "const":
            r = s.args[0]
        elif op == "add":
            r = go(s.args[0]) + go(s.args[1])
        elif op == "sub":
            r = go(s.args[0]) - go(s.args[1])
        elif op == "mul":
            r = go(s.args[0]) * go(s.args[1])
        elif op == "div":
            r = go(s.args[0]) / go(s.args[1])
        elif op == "neg":
            r = -go(s.args[0])
        elif op == "pow":
            r = go(s.args[0]) ** s.args[1]
        else:
            raise ValueError("evalq: " + op)
        cache[k] = r
        return r

    return go(s)


def dag_size(roots):
    seen = set()

    def go(s):
        if not isinstance(s, Sym) or id(s) in seen:
            return
        seen.add(id(s))
        for a in s.args:
            go(a)

    for r in roots:
        go(r)
    return len(seen)


# ---------------------------------------------------------------------------
# numpy shim
# ---------------------------------------------------------------------------

def _has_sym(x):
    if isinstance(x, Sym):
        return True
    if isinstance(x, _np.ndarray):
        return x.dtype == object
    if isinstance(x, (list, tuple)):
        return any(_has_sym(a) for a in x)
    return False


class SymNd(_np.ndarray):
    """object ndarray holding Sym values; `astype(float)` / `.real` keep the symbolic content (the real code uses them on
    float arrays where they are no-ops)"""

    def astype(self, dtype, *a, **k):
        return self.copy()

    @property
    def real(self):
        return self

    @property
    def imag(self):
        return _np.zeros(self.shape)


def symarray(vals):
    a = _np.empty(len(vals), dtype=object).view(SymNd)
    for i, v in enumerate(vals):
        a[i] = v
    return a


def _obj_full(shape, c):
    a = _np.empty(shape, dtype=object).view(SymNd)
    a.fill(Sym.const(c))
    return a


def _map_obj(f, x):
    if isinstance(x, _np.ndarray):
        out = _np.empty(x.shape, dtype=object)
        for idx in _np.ndindex(x.shape):
            out[idx] = f(Sym.lift(x[idx]))
        return out
    return f(Sym.lift(x))


class ShimNP:
    """Stand-in for the `np` global of a traced function.  Array constructors always create
    object arrays (so that symbolic values can be stored); everything else is real numpy."""

    def __init__(self, symbolic_alloc=True):
        self._sym_alloc = symbolic_alloc

    def __getattr__(self, name):
        return getattr(_np, name)

    # constructors ------------------------------------------------------
    def zeros(self, shape, dtype=None):
        if dtype is not None and _np.dtype(dtype).kind in "iub":
            return _np.zeros(shape, dtype=dtype)
        return _obj_full(shape, 0)

    def empty(self, shape, dtype=None):
        if dtype is not None and _np.dtype(dtype).kind in "iub":
            return _np.empty(shape, dtype=dtype)
        return _obj_full(shape, 0)

    def ones(self, shape, dtype=None):
        return _obj_full(shape, 1)

    def eye(self, n, dtype=None):
        a = _obj_full((n, n), 0)
        for i in range(n):
            a[i, i] = Sym.const(1)
        return a

    def zeros_like(self, a, dtype=None):
        return _obj_full(_np.shape(a), 0)

    def empty_like(self, a, dtype=None):
        return _obj_full(_np.shape(a), 0)

    def array(self, x, dtype=None, copy=True):
        if _has_sym(x):
            if isinstance(x, _np.ndarray):
                return x.copy()
            arr = _np.empty(len(x), dtype=object)
            nested = any(isinstance(e, (list, tuple, _np.ndarray)) for e in x)
            if nested:
                rows = [self.array(e) for e in x]
                arr = _np.empty((len(rows), len(rows[0])), dtype=object)
                for i, r in enumerate(rows):
                    arr[i, :] = r
                return arr
            for i, e in enumerate(x):
                arr[i] = Sym.lift(e)
            return arr
        # concrete data stays concrete but as object array of exact constants? keep as float
        return _np.array(x, dtype=dtype)

    def asarray(self, x, dtype=None):
        if _has_sym(x):
            return x if isinstance(x, _np.ndarray) else self.array(x)
        return _np.asarray(x, dtype=dtype)

    def ascontiguousarray(self, x, dtype=None):
        return self.asarray(x)

    def copy(self, x):
        return x.copy()

    # elementwise functions ------------------------------------------------
    def sqrt(self, x):
        if _has_sym(x):
            return _map_obj(lambda s: s.sqrt(), x)
        return _np.sqrt(x)

    def sin(self, x):
        if _has_sym(x):
            return _map_obj(lambda s: s.sin(), x)
        return _np.sin(x)

    def cos(self, x):
        if _has_sym(x):
            return _map_obj(lambda s: s.cos(), x)
        return _np.cos(x)

    def abs(self, x):
        if _has_sym(x):
            return _map_obj(abs, x)
        return _np.abs(x)

    absolute = abs
    fabs = abs

    def hypot(self, a, b):
        if _has_sym(a) or _has_sym(b):
            if isinstance(a, _np.ndarray) or isinstance(b, _np.ndarray):
                aa, bb = _np.broadcast_arrays(_np.asarray(a, dtype=object), _np.asarray(b, dtype=object))
                out = _np.empty(aa.shape, dtype=object)
                for idx in _np.ndindex(aa.shape):
                    out[idx] = (Sym.lift(aa[idx]) ** 2 + Sym.lift(bb[idx]) ** 2).sqrt()
                return out
            return (Sym.lift(a) ** 2 + Sym.lift(b) ** 2).sqrt()
        return _np.hypot(a, b)

    def maximum(self, a, b):
        if _has_sym(a) or _has_sym(b):
            if isinstance(a, _np.ndarray) or isinstance(b, _np.ndarray):
                aa, bb = _np.broadcast_arrays(_np.asarray(a, dtype=object), _np.asarray(b, dtype=object))
                out = _np.empty(aa.shape, dtype=object)
                for idx in _np.ndindex(aa.shape):
                    x, y = Sym.lift(aa[idx]), Sym.lift(bb[idx])
                    out[idx] = x if x >= y else y
                return out
            a, b = Sym.lift(a), Sym.lift(b)
            return a if a >= b else b
        return _np.maximum(a, b)

    def minimum(self, a, b):
        if _has_sym(a) or _has_sym(b):
            a, b = Sym.lift(a), Sym.lift(b)
            return a if a <= b else b
        return _np.minimum(a, b)

    def sign(self, x):
        if _has_sym(x):
            x = Sym.lift(x)
            if x > 0:
                return Sym.const(1)
            if x < 0:
                return Sym.const(-1)
            return Sym.const(0)
        return _np.sign(x)

    def isfinite(self, x):
        if _has_sym(x):
            return True
        return _np.isfinite(x)

    def isnan(self, x):
        if _has_sym(x):
            return False
        return _np.isnan(x)

    def dot(self, a, b):
        if _has_sym(a) or _has_sym(b):
            a = _np.asarray(a, dtype=object)
            b = _np.asarray(b, dtype=object)
            if a.ndim == 1 and b.ndim == 1:
                s = Sym.const(0)
                for x, y in zip(a, b):
                    s = s + Sym.lift(x) * Sym.lift(y)
                return s
            if a.ndim == 2 and b.ndim == 1:
                return symarray([self.dot(a[i], b) for i in range(a.shape[0])])
            if a.ndim == 1 and b.ndim == 2:
                return symarray([self.dot(a, b[:, j]) for j in range(b.shape[1])])
            if a.ndim == 2 and b.ndim == 2:
                out = _np.empty((a.shape[0], b.shape[1]), dtype=object)
                for i in range(a.shape[0]):
                    for j in range(b.shape[1]):
                        out[i, j] = self.dot(a[i], b[:, j])
                return out
        return _np.dot(a, b)

    def sum(self, a, axis=None):
        if _has_sym(a):
            s = Sym.const(0)
            for x in _np.asarray(a, dtype=object).ravel():
                s = s + Sym.lift(x)
            return s
        return _np.sum(a, axis=axis)


class _NullLogger:
    def __getattr__(self, name):
        return lambda *a, **k: None


def retarget(fn, extra=None, _memo=None, shim=None):
    """Return a plain-Python copy of `fn` (its `.py_func` if it is a numba dispatcher) whose globals
    are rebound: `np` -> shim, `logger` -> null, numba-compiled callees -> retargeted copies.
    `extra` overrides individual global names (recorders, uninterpreted symbols)."""
    extra = dict(extra or {})
    if _memo is None:
        _memo = {}
    if shim is None:
        shim = ShimNP()
    f = getattr(fn, "py_func", fn)
    if id(f) in _memo:
        return _memo[id(f)]
    g = dict(f.__globals__)
    new = types.FunctionType(f.__code__, g, f.__name__, f.__defaults__, f.__closure__)
    new.__kwdefaults__ = f.__kwdefaults__
    _memo[id(f)] = new
    g["np"] = shim
    g["logger"] = _NullLogger()
    names = set(f.__code__.co_names)
    for name in names:
        if name in extra:
            continue
        obj = f.__globals__.get(name)
        if obj is None:
            continue
        if hasattr(obj, "py_func") and callable(obj):
            g[name] = retarget(obj, extra, _memo, shim)
        elif isinstance(obj, types.FunctionType) and str(getattr(obj, "__module__", "")).startswith("hiten."):
            # plain-python callees of the library are retargeted too, so that overrides reach them
            g[name] = retarget(obj, extra, _memo, shim)
    g.update(extra)
    # numba.prange -> range when running the python body
    if "prange" in names:
        g.setdefault("prange", range)
    return new


class Proxy:
    """stand-in for `self` of a library class when one of its methods is traced: attributes listed in `values` (symbolic data, stubs)
    win; everything else is looked up on the REAL class -- plain methods and properties are retargeted copies bound to this proxy, so
    helper methods the traced method calls on `self` (also ones introduced by a later refactor) are traced through."""

    def __init__(self, cls, values=None, extra=None, shim=None, _memo=None):
        object.__setattr__(self, "_p", (cls, dict(values or {}), extra, shim, _memo if _memo is not None else {}))

    def __getattr__(self, name):
        import inspect
        cls, values, extra, shim, memo = object.__getattribute__(self, "_p")
        if name in values:
            return values[name]
        try:
            attr = inspect.getattr_static(cls, name)
        except AttributeError:
            raise AttributeError("%s proxy has no attribute %r" % (cls.__name__, name))
        if isinstance(attr, property):
            return retarget(attr.fget, extra, memo, shim)(self)
        if isinstance(attr, staticmethod):
            return retarget(attr.__func__, extra, memo, shim)
        if isinstance(attr, classmethod):
            return types.MethodType(retarget(attr.__func__, extra, memo, shim), cls)
        if isinstance(attr, types.FunctionType) or hasattr(attr, "py_func"):
            return types.MethodType(retarget(attr, extra, memo, shim), self)
        return attr

    def __setattr__(self, name, value):
        object.__getattribute__(self, "_p")[1][name] = value


def uninterp(name, dim, shadow=None):
    """Uninterpreted vector-valued function symbol: F(*args) -> object array of `dim` app nodes.
    `shadow(i, *floats)` optionally supplies the concrete shadow value."""

    def F(*args):
        flat = []
        for a in args:
            if isinstance(a, _np.ndarray):
                flat += [Sym.lift(x) for x in a.ravel()]
            elif isinstance(a, (list, tuple)):
                flat += [Sym.lift(x) for x in a]
            else:
                flat.append(Sym.lift(a))
        vals = [shadow(i, *[x.val for x in flat]) if shadow else 0.0 for i in range(dim)]
        return symarray([app(name, i, flat, vals[i]) for i in range(dim)])

    return F


# ---------------------------------------------------------------------------
# polynomial normal form (used to canonicalise sqrt arguments)
# ---------------------------------------------------------------------------

def polynf(s, cache=None):
    """Multivariate polynomial normal form {sorted tuple of (var,exp) : Fraction} or None."""
    if cache is None:
        cache = {}

    def mulp(a, b):
        out = {}
        for ma, ca in a.items():
            for mb, cb in b.items():
                d = dict(ma)
                for v, e in mb:
                    d[v] = d.get(v, 0) + e
                m = tuple(sorted(d.items()))
                out[m] = out.get(m, 0) + ca * cb
        return {m: c for m, c in out.items() if c != 0}

    def addp(a, b, sgn=1):
        out = dict(a)
        for m, c in b.items():
            out[m] = out.get(m, 0) + sgn * c
        return {m: c for m, c in out.items() if c != 0}

    def go(s):
        k = id(s)
        if k in cache:
            return cache[k]
        op = s.op
        r = None
        if op == "var":
            r = {((s.args[0], 1),): Fraction(1)}
        elif op == "const":
            r = {(): s.args[0]} if s.args[0] != 0 else {}
        elif op in ("add", "sub"):
            a, b = go(s.args[0]), go(s.args[1])
            r = None if a is None or b is None else addp(a, b, 1 if op == "add" else -1)
        elif op == "mul":
            a, b = go(s.args[0]), go(s.args[1])
            r = None if a is None or b is None else mulp(a, b)
        elif op == "neg":
            a = go(s.args[0])
            r = None if a is None else {m: -c for m, c in a.items()}
        elif op == "pow":
            a = go(s.args[0])
            if a is not None:
                r = {(): Fraction(1)}
                for _ in range(s.args[1]):
                    r = mulp(r, a)
        elif op == "div":
            a, b = go(s.args[0]), go(s.args[1])
            if a is not None and b is not None and list(b.keys()) == [()]:
                r = {m: c / b[()] for m, c in a.items()}
        cache[k] = r
        return r

    return go(s)


def nf_key(nf):
    return tuple(sorted((tuple(m), (c.numerator, c.denominator)) for m, c in nf.items()))


def collect_sqrt_args(roots):
    """All distinct arguments of sqrt nodes reachable from roots (DAG order)."""
    seen, out = set(), []

    def go(s):
        if not isinstance(s, Sym) or id(s) in seen:
            return
        seen.add(id(s))
        for a in s.args:
            go(a)
        if s.op == "sqrt":
            out.append(s.args[0])

    for r in roots:
        go(r)
    return out


def canonical_sqrt_names(roots, prefix="sq"):
    """Group sqrt arguments that are equal as polynomials; returns
    (named: id(arg Sym) -> name, defs: [(name, representative Sym)]) sorted by normal-form key so that the
    numbering does not depend on the order in which the source happens to compute things."""
    args = collect_sqrt_args(roots)
    groups = {}
    for a in args:
        nf = polynf(a)
        key = nf_key(nf) if nf is not None else ("opaque", show(a))
        groups.setdefault(key, []).append(a)
    named, defs = {}, []
    for n, key in enumerate(sorted(groups, key=repr)):
        name = "%s%d" % (prefix, n)
        rep = groups[key][0]
        defs.append((name, rep))
        for a in groups[key]:
            named[id(a)] = name
    return named, defs
