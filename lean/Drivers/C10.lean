/- Drivers/C10.lean — line-protocol driver of the direction / time-grid model (see harness/props/c10.py).
   One operation per input line, one answer line per operation.  Lists are comma separated, `-` = empty list. -/
import HitenModel.Core.C10
import HitenModel.Gen.C10
import HitenModel.Core.Drv
open HitenModel.C10 Drv

def ints (s : String) : Option (List Int) :=
  if s == "-" then some [] else (s.splitOn ",").mapM parseInt?

def showInts (l : List Int) : String := if l.isEmpty then "-" else ",".intercalate (l.map toString)

def showErr : Err → String
  | .tooShort => "tooShort" | .notMonotone => "notMonotone"
  | .descendingRejected => "descendingRejected" | .zeroDivision => "zeroDivision"

def showKind : GridKind → String
  | .zeroSpan => "zeroSpan" | .ascending => "ascending" | .descending => "descending"

def kindOf (s : String) : Kind := if s == "45" then .rk45 else .dop853

/-- oracle `a:h,a:h,...` -/
def orcOf (s : String) : Option (List (Bool × Int)) :=
  if s == "-" then some [] else
  (s.splitOn ",").mapM fun w =>
    match w.splitOn ":" with
    | [a, h] => (parseInt? h).map fun hi => (a == "1", hi)
    | _ => none

def showSample : Sample → String
  | .dense j n d => s!"d:{j}:{n}:{d}"
  | .left j => s!"l:{j}"
  | .zeroDiv => "z"

def showA : AOutcome → String
  | .error e => s!"err:{showErr e}"
  | .const n => s!"const:{n}"
  | .nonterm => "nonterm"
  | .ok nodes ss => s!"nodes={showInts nodes} samples={",".intercalate (ss.map showSample)}"

def showE : EOutcome → String
  | .error e => s!"err:{showErr e}"
  | .const n => s!"const:{n}"
  | .nonterm => "nonterm"
  | .noHit a b j => s!"nohit:{a}:{b}:{j}"

abbrev Log := List (Int × Int)
def showLog (l : Log) : String := if l.isEmpty then "-" else ";".intercalate (l.map fun (a, b) => s!"{a}:{b}")

def flipOf (s : String) : Option (List Nat) :=
  if s == "none" then none else if s == "-" then some [] else some ((s.splitOn ",").filterMap String.toNat?)
def showFlip : Option (List Nat) → String
  | none => "none"
  | some l => if l.isEmpty then "-" else ",".intercalate (l.map toString)

def cfg : Cfg := HitenModel.Gen.C10.cfg

def handle (_ : Unit) (line : String) : IO Unit := do
  match words line with
  | ["VAL", ts] =>
    match ints ts with
    | some t => match validateGrid t with
      | .ok k => IO.println s!"val ok:{showKind k}"
      | .error e => IO.println s!"val err:{showErr e}"
    | none => IO.println "bad-op"
  | ["FIX", cl, ts] =>
    match ints ts with
    | some t =>
      match integrateFixed (S := Log) (fun _ _ => cl == "1") (fun a h y => y ++ [(a, h)]) [] t with
      | .error e => IO.println s!"fix err:{showErr e}"
      | .sol s => IO.println s!"fix times={showInts s.times} n={s.states.length} log={showLog (s.states.getLastD [])}"
    | none => IO.println "bad-op"
  | ["ADP", k, g, cl, mx, mn, h0, ts, orc] =>
    match ints ts, orcOf orc, parseInt? mx, parseInt? mn, parseInt? h0 with
    | some t, some o, some a, some b, some c =>
      let r := match adaptiveEntry (g == "1") (kindOf k) (fun _ _ => cl == "1") t with
        | .error e => AOutcome.error e
        | .const n => .const n
        | .run => adaptiveDriver (kindOf k) ⟨a, b, c⟩ o t
      IO.println s!"adp {showA r}"
    | _, _, _, _, _ => IO.println "bad-op"
  | ["ENTRY", k, ev, cl, ts] =>
    -- Python-level entry of the adaptive integrators with the guard switches of Gen.cfg
    match ints ts with
    | some t =>
      let kd := kindOf k
      let g := if ev == "1" then guardEventOf cfg kd else guardOf cfg kd
      match adaptiveEntry g kd (fun _ _ => cl == "1") t with
      | .error e => IO.println s!"entry err:{showErr e}"
      | .const n => IO.println s!"entry const:{n}"
      | .run => IO.println "entry run"
    | none => IO.println "bad-op"
  | ["EVT", mx, mn, h0, ts, orc] =>
    match ints ts, orcOf orc, parseInt? mx, parseInt? mn, parseInt? h0 with
    | some t, some o, some a, some b, some c => IO.println s!"evt {showE (eventDriverNoHit ⟨a, b, c⟩ o t)}"
    | _, _, _, _, _ => IO.println "bad-op"
  | ["SYM", fwd, ts] =>
    match ints ts, parseInt? fwd with
    | some t, some f =>
      match integrateSymplectic (S := List Int) cfg (fun dt y => y ++ [dt]) f [] t with
      | .error e => IO.println s!"sym err:{showErr e}"
      | .sol s => IO.println s!"sym times={showInts s.times} grid={showInts (symGrid cfg f t)} n={s.states.length} dts={showInts (s.states.getLastD [])}"
    | _, _ => IO.println "bad-op"
  | ["PROP", m, k, fwd, flip, t0, d, n, cl] =>
    match parseInt? fwd, parseInt? t0, parseInt? d, n.toNat? with
    | some f, some a, some dd, some nn =>
      let close : Int → Int → Bool := fun _ _ => cl == "1"
      let meth : Method := if m == "fixed" then .fixed else if m == "symplectic" then .symplectic else .adaptive
      let integ : Method → Call → Outcome Unit := fun mm call =>
        match mm with
        | .fixed => integrateFixed close (fun _ _ y => y) () call.grid
        | .symplectic => integrateSymplectic cfg (fun _ y => y) call.fwd () call.grid
        | .adaptive =>
          match adaptiveEntry (guardOf cfg (kindOf k)) (kindOf k) close call.grid with
          | .error e => .error e
          | .const c => .sol ⟨call.grid, List.replicate c ()⟩
          | .run => .sol ⟨call.grid, List.replicate call.grid.length ()⟩
      let call : Call := ⟨normFwd f, flipOf flip, linspace a dd nn⟩
      match propagate close integ meth f (flipOf flip) () a dd nn with
      | .error e => IO.println s!"prop call={call.fwd}/{showFlip call.flip}/{showInts call.grid} err:{showErr e}"
      | .sol s => IO.println s!"prop call={call.fwd}/{showFlip call.flip}/{showInts call.grid} times={showInts s.times} n={s.states.length}"
    | _, _, _, _ => IO.println "bad-op"
  | [] => return ()
  | _ => IO.println "bad-op"

def main : IO Unit := do
  forLines (← IO.getStdin) Unit () handle
