"""C07 — the polynomial Hamiltonian is the Taylor expansion of the true CR3BP Hamiltonian in the library's local coordinates.

Regenerated model (Gen/C07.lean):
  * the local->synodic maps traced for L1, L2, L3 (and L4/L5), and the CR3BP energy / vector field *composed* with them (traced in one go);
  * the recurrence coefficients and wiring of `_build_T_polynomials` / `_build_A_polynomials` and the assembly of
    `_build_physical_hamiltonian_collinear`, obtained by executing the current builders on an exact polynomial algebra (every polynomial
    kernel rebound to an exact dict-polynomial implementation, coefficients exact rationals of the floats in use);
Props/C07.lean: the traced map conjugates the Hamiltonian flow of (E o phi)/gamma^2 to the CR3BP flow (sentence 2 of the property, exact);
the recurrence is Legendre's (coefficients) and the exact Legendre recurrence satisfies the generating identity
(sum T_n)^2 (1 - 2x + rho^2) = 1 mod degree N+1 for every N <= 10 (so sum T_n is the Taylor polynomial of 1/|r - e1|), homogeneity, c_n closed form.
Numerics: remainder exponents of H_poly vs (E o phi - E0)/gamma^2 and of the mapped Hamilton field vs the accelerations."""
from __future__ import annotations

import math
import types
from fractions import Fraction

import numpy as np

import lean_emit as E
import tracer as T

LOCVARS = ["x", "y", "z", "px", "py", "pz", "gamma", "mu"]


class _Shim7(T.ShimNP):
    def asarray(self, x, dtype=None):
        if T._has_sym(x):
            return x if isinstance(x, np.ndarray) else self.array(x)
        return np.asarray(x, dtype=dtype)

    def imag(self, x):
        return np.zeros(np.shape(x))

    def any(self, x):
        return bool(np.any(x))


def fake_point(k, g, mu):
    from hiten.algorithms.types.services import libration as lib
    cls = {1: lib._L1DynamicsService, 2: lib._L2DynamicsService, 3: lib._L3DynamicsService,
           4: lib._L4DynamicsService, 5: lib._L5DynamicsService}[k]
    # the dynamics service is a proxy of the REAL class (sign, a, ... are its own retargeted properties) with symbolic gamma, mu
    dyn = T.Proxy(cls, dict(gamma=g, mu=mu))
    return types.SimpleNamespace(mu=mu, dynamics=dyn)


def trace_point(k):
    """phi, E o phi, accel o phi for point k as Syms over LOCVARS"""
    from hiten.algorithms.common import energy as en
    from hiten.algorithms.dynamics import rtbp
    from hiten.algorithms.hamiltonian import transforms as tr
    T.reset()
    c = T.symarray([T.Sym.var(n, v) for n, v in zip(LOCVARS[:6], [0.011, -0.008, 0.012, 0.006, 0.01, -0.014])])
    g, mu = T.Sym.var("gamma", 0.15), T.Sym.var("mu", 0.0121505856)
    pt = fake_point(k, g, mu)
    fn = tr._local2synodic_collinear if k <= 3 else tr._local2synodic_triangular
    phi = T.retarget(fn, shim=_Shim7())(pt, c)
    phi = [T.Sym.lift(v) for v in phi]
    Ephi = T.retarget(en.crtbp_energy)(T.symarray(phi), mu)
    acc = [T.Sym.lift(v) for v in T.retarget(rtbp._crtbp_accel)(T.symarray(phi), mu)]
    inv_fn = tr._synodic2local_collinear if k <= 3 else tr._synodic2local_triangular
    back = [T.Sym.lift(v) for v in T.retarget(inv_fn, shim=_Shim7())(pt, T.symarray(phi))]
    return phi, Ephi, acc, back


# ------------------------------------------------------------------------------------------------------------------
# exact polynomial algebra used to execute the current builders
# ------------------------------------------------------------------------------------------------------------------

class XP:
    """exact polynomial in 6 variables: {exponent 6-tuple: Fraction}; mimics the indexing the builders use on packed polynomials"""

    def __init__(self, d=None, max_deg=99):
        self.d = dict(d or {})
        self.max_deg = max_deg

    def __len__(self):
        return self.max_deg + 1

    class _Blk:
        def __init__(self, p, deg):
            self.p, self.deg = p, deg

        def __len__(self):
            return 1

        def __setitem__(self, i, v):
            if self.deg != 0 or i != 0:
                raise IndexError("only the constant coefficient is addressed directly by the builders")
            q = Fraction(float(v)) if not isinstance(v, Fraction) else v
            if q == 0:
                self.p.d.pop((0,) * 6, None)
            else:
                self.p.d[(0,) * 6] = q

        def __getitem__(self, i):
            return self.p.d.get((0,) * 6, Fraction(0))

    def __getitem__(self, deg):
        return XP._Blk(self, deg)

    def copy(self):
        return XP(self.d, self.max_deg)


def xp_ops(log):
    def zero_list(max_deg, psi, *a, **k):
        return XP({}, max_deg)

    def variable(i, max_deg, *a, **k):
        e = [0] * 6
        e[i] = 1
        return XP({tuple(e): Fraction(1)}, max_deg)

    def multiply(p, q, max_deg, *a, **k):
        out = {}
        for ea, ca in p.d.items():
            for eb, cb in q.d.items():
                e = tuple(x + y for x, y in zip(ea, eb))
                if sum(e) <= max_deg:
                    out[e] = out.get(e, 0) + ca * cb
        return XP({e: c for e, c in out.items() if c != 0}, max_deg)

    def add_inplace(dst, src, scale=1.0, *a, **k):
        if isinstance(scale, T.Sym):
            raise TypeError("symbolic scale")
        s = Fraction(float(scale)) if not isinstance(scale, Fraction) else scale
        log.append(("add", s))
        for e, c in src.d.items():
            v = dst.d.get(e, 0) + s * c
            if v == 0:
                dst.d.pop(e, None)
            else:
                dst.d[e] = v

    return {"_polynomial_zero_list": zero_list, "_polynomial_variable": variable, "_polynomial_multiply": multiply,
            "_polynomial_add_inplace": add_inplace, "List": list, "_init_index_tables": lambda d: (None, None),
            "_create_encode_dict_from_clmo": lambda c: None}


def run_builders(Nmax, cn_of):
    """execute the CURRENT `_build_T_polynomials` and `_build_physical_hamiltonian_collinear` on exact polynomials"""
    from hiten.algorithms.hamiltonian import hamiltonian as hm
    log = []
    ops = xp_ops(log)
    memo = {}
    Tb = T.retarget(hm._build_T_polynomials, ops, memo)
    x, y, z = [ops["_polynomial_variable"](i, Nmax) for i in range(3)]
    Ts = Tb(x, y, z, Nmax, None, None, None)
    tlog = list(log)
    pt = types.SimpleNamespace(dynamics=types.SimpleNamespace(cn=cn_of))
    H = T.retarget(hm._build_physical_hamiltonian_collinear, ops, memo)(pt, Nmax)
    return Ts, H, tlog


def solve_recurrence(Ps, lin, rho2, Nmax):
    """read the three-term recurrence P_n = a_n * lin * P_(n-1) - b_n * rho2 * P_(n-2) back from the polynomials the builder PRODUCED (exact
    rational arithmetic): two monomials with independent rows give (a_n, b_n) -- exactly the floats the code used, because the builder ran on
    an exact algebra -- and the identity is then verified on every monomial (wiring).  Independent of how the code organises its temporaries."""
    ops = xp_ops([])
    out, wiring = [], True
    for n in range(2, Nmax + 1):
        M1 = ops["_polynomial_multiply"](lin, Ps[n - 1], Nmax).d
        M2 = ops["_polynomial_multiply"](rho2, Ps[n - 2], Nmax).d
        Pn = Ps[n].d
        monos = sorted(set(M1) | set(M2) | set(Pn))
        sol = None
        for i, e1 in enumerate(monos):
            for e2 in monos[i + 1:]:
                a11, a12, a21, a22 = M1.get(e1, 0), -M2.get(e1, 0), M1.get(e2, 0), -M2.get(e2, 0)
                det = a11 * a22 - a12 * a21
                if det != 0:
                    r1, r2 = Pn.get(e1, 0), Pn.get(e2, 0)
                    sol = (Fraction(r1 * a22 - a12 * r2) / det, Fraction(a11 * r2 - a21 * r1) / det)
                    break
            if sol:
                break
        if sol is None:
            return out, False
        a, b = sol
        out.append((n, a, b))
        if any(Pn.get(e, 0) != a * M1.get(e, 0) - b * M2.get(e, 0) for e in monos):
            wiring = False
    return out, wiring


def legendre_coeffs_from(Ts, Nmax, log):
    """(a_n, b_n) of T_n = a_n x T_(n-1) - b_n rho^2 T_(n-2), recovered from the builder's output (see `solve_recurrence`)"""
    ops = xp_ops([])
    x, y, z = [ops["_polynomial_variable"](i, Nmax) for i in range(3)]
    rho2 = XP({}, Nmax)
    for v in (x, y, z):
        ops["_polynomial_add_inplace"](rho2, ops["_polynomial_multiply"](v, v, Nmax), 1.0)
    out, wiring = solve_recurrence(Ts, x, rho2, Nmax)
    if Ts[0].d != {(0,) * 6: Fraction(1)} or Ts[1].d != x.d:
        wiring = False
    return out, wiring


def run_tri_builders(Nmax, mu, sgn):
    """execute the CURRENT `_build_A_polynomials` and `_build_physical_hamiltonian_triangular` on exact polynomials; returns the
    Hamiltonian, the offsets (d_x, d_y) the builder handed to `_build_A_polynomials`, the A_n lists it got back"""
    from hiten.algorithms.hamiltonian import hamiltonian as hm
    log = []
    ops = xp_ops(log)
    memo = {}
    Ab = T.retarget(hm._build_A_polynomials, ops, memo)
    calls = []

    def A_rec(px, py, pz, dx, dy, *a, **kw):
        out = Ab(px, py, pz, dx, dy, *a, **kw)
        calls.append((Fraction(float(dx)), Fraction(float(dy)), out))
        return out
    ops2 = dict(ops)
    ops2["_build_A_polynomials"] = A_rec
    pt = types.SimpleNamespace(mu=mu, dynamics=types.SimpleNamespace(sign=sgn))
    H = T.retarget(hm._build_physical_hamiltonian_triangular, ops2, {})(pt, Nmax)
    return H, calls


def tri_recurrence(Nmax, dx, dy):
    """(m, c1_m, c2_m) for m = 2..Nmax of A_m = c1 (d.r) A_(m-1) - c2 rho^2 A_(m-2), recovered from what `_build_A_polynomials` produces on
    exact polynomials (see `solve_recurrence`), with A_0 = 1, A_1 = d.r"""
    from hiten.algorithms.hamiltonian import hamiltonian as hm
    ops = xp_ops([])
    x, y, z = [ops["_polynomial_variable"](i, Nmax) for i in range(3)]
    As = T.retarget(hm._build_A_polynomials, ops, {})(x, y, z, float(dx), float(dy), Nmax, None, None, None)
    rho2 = XP({}, Nmax)
    for v in (x, y, z):
        ops["_polynomial_add_inplace"](rho2, ops["_polynomial_multiply"](v, v, Nmax), Fraction(1))
    dot = XP({}, Nmax)
    ops["_polynomial_add_inplace"](dot, x, Fraction(dx))
    ops["_polynomial_add_inplace"](dot, y, Fraction(dy))
    As = [As[n] for n in range(Nmax + 1)]
    out, wiring = solve_recurrence(As, dot, rho2, Nmax)
    if As[0].d != {(0,) * 6: Fraction(1)} or As[1].d != dot.d:
        wiring = False
    mine = tri_A_exact(Nmax, Fraction(dx), Fraction(dy), out) if len(out) == Nmax - 1 else None
    if mine is None or any(As[n].d != mine[n].d for n in range(Nmax + 1)):
        wiring = False
    shape = all(sum(e) == n and not any(e[3:]) for n in range(Nmax + 1) for e in As[n].d)
    return out, wiring, shape


def tri_A_exact(Nmax, dx, dy, coeffs):
    """the A_n of the documented recurrence, with the given coefficient list, on exact polynomials (independent of the builder)"""
    ops = xp_ops([])
    x, y, z = [ops["_polynomial_variable"](i, Nmax) for i in range(3)]
    rho2 = XP({}, Nmax)
    for v in (x, y, z):
        ops["_polynomial_add_inplace"](rho2, ops["_polynomial_multiply"](v, v, Nmax), Fraction(1))
    dot = XP({}, Nmax)
    ops["_polynomial_add_inplace"](dot, x, dx)
    ops["_polynomial_add_inplace"](dot, y, dy)
    A = [XP({(0,) * 6: Fraction(1)}, Nmax), dot.copy()]
    for (m, c1, c2) in coeffs:
        nxt = XP({}, Nmax)
        ops["_polynomial_add_inplace"](nxt, ops["_polynomial_multiply"](dot, A[m - 1], Nmax), c1)
        ops["_polynomial_add_inplace"](nxt, ops["_polynomial_multiply"](rho2, A[m - 2], Nmax), -c2)
        A.append(nxt)
    return A


def tri_assembly(Nmax, mu, sgn, coeffs):
    """H built by the current triangular builder == 1/2|p|^2 + y p_x - x p_y + (1/2 - mu) x + d_y y - (1-mu) sum A^S_n - mu sum A^J_n with
    the constant removed, where A^S, A^J follow the documented recurrence for the offsets the builder passed; returns (ok, offsets)"""
    H, calls = run_tri_builders(Nmax, mu, sgn)
    if len(calls) != 2:
        return False, []
    (dSx, dSy, AS), (dJx, dJy, AJ) = calls
    mu_q = Fraction(float(mu))
    exp = {(0, 0, 0, 2, 0, 0): Fraction(1, 2), (0, 0, 0, 0, 2, 0): Fraction(1, 2), (0, 0, 0, 0, 0, 2): Fraction(1, 2),
           (0, 1, 0, 1, 0, 0): Fraction(1), (1, 0, 0, 0, 1, 0): Fraction(-1)}
    exp[(1, 0, 0, 0, 0, 0)] = exp.get((1, 0, 0, 0, 0, 0), 0) + Fraction(0.5 - float(mu))
    exp[(0, 1, 0, 0, 0, 0)] = exp.get((0, 1, 0, 0, 0, 0), 0) + dSy
    for (dx, dy, w) in ((dSx, dSy, -(1 - mu_q)), (dJx, dJy, -mu_q)):
        A = tri_A_exact(Nmax, dx, dy, coeffs)
        for n in range(0, Nmax + 1):
            for e, c in A[n].d.items():
                exp[e] = exp.get(e, 0) + w * c
    exp.pop((0,) * 6, None)
    exp = {e: c for e, c in exp.items() if c != 0}
    got = {e: c for e, c in H.d.items() if c != 0}
    # the weights -(1-mu), -mu are formed in floats by the builder: exact for the dyadic mu used here
    return got == exp, [(dSx, dSy), (dJx, dJy)]


def dyq(q):
    q = Fraction(q)
    d = q.denominator
    e = d.bit_length() - 1
    if d != 1 << e:
        raise ValueError("non-dyadic %r" % (q,))
    return "⟨%d,%d⟩" % (q.numerator, e)


NMAX = 10


def gen(ctx):
    txt = E.header("C07", imports=("HitenModel.Core.RE", "HitenModel.Core.Dy"), note="traced from hamiltonian/transforms.py, hamiltonian/hamiltonian.py, energy.py, rtbp.py")
    txt += "open RE\n"
    vidx = {n: i for i, n in enumerate(LOCVARS)}
    TRC = {}
    for k in (1, 2, 3, 4, 5):
        try:
            phi, Ephi, acc, back = trace_point(k)
            named, defs = T.canonical_sqrt_names([Ephi] + acc, "lq%d_" % k)
            for name, rep in defs:
                txt += E.re_def(name, rep, vidx)
            txt += "def sqrtArgs%d : List RE := [%s]\n" % (k, ", ".join(n for n, _ in defs))
            txt += E.re_fun("phi%d" % k, phi, vidx)
            txt += E.re_def("energyLoc%d" % k, Ephi, vidx, named)
            txt += E.re_fun("accelLoc%d" % k, acc, vidx, named)
            txt += E.re_fun("back%d" % k, back, vidx)
            TRC[k] = (phi, Ephi, acc)
        except Exception as ex:
            ctx.broken.append(("trace:local2synodic-L%d" % k, repr(ex)))
            ctx.obligations["trace:local2synodic-L%d" % k] = False
    # ---- builders on exact polynomials -----------------------------------------------------------------------
    try:
        cn_marks = {n: Fraction(1000 + n) for n in range(0, NMAX + 2)}      # distinct markers to read the assembly back
        Ts, H, tlog = run_builders(NMAX, lambda n: float(cn_marks[n]))
        co, wiring = legendre_coeffs_from(Ts, NMAX, tlog)
        txt += "-- recurrence coefficients (a_n, b_n) read back from the T_n the current builder produced on exact polynomials\n"
        rq = lambda q: "(%d, %d)" % (Fraction(q).numerator, Fraction(q).denominator)
        txt += "def legendreAB : List (Nat × (Int × Nat) × (Int × Nat)) := [%s]\n" % ", ".join("(%d, %s, %s)" % (n, rq(a), rq(b)) for n, a, b in co)
        txt += "def legendreWiringOK : Bool := %s   -- T_0 = 1, T_1 = x, T_n = a_n x T_(n-1) - b_n (x^2+y^2+z^2) T_(n-2) exactly\n" % str(wiring).lower()
        # exact T_n with the exact Legendre coefficients for comparison: T_n must be a function of (x, rho^2)
        ok_shape = True
        for n in range(0, NMAX + 1):
            for e, c in Ts[n].d.items():
                if sum(e) != n or any(e[3:]) or e[1] % 2 or e[2] % 2:
                    ok_shape = False
        txt += "def legendreShapeOK : Bool := %s   -- every T_n is homogeneous of degree n, even in y and z, free of momenta\n" % str(ok_shape).lower()
        # assembly of H: H - (1/2 p^2 + y px - x py) = - sum_{n>=2} cn(n) T_n  (markers), no constant term
        base = {(0, 0, 0, 2, 0, 0): Fraction(1, 2), (0, 0, 0, 0, 2, 0): Fraction(1, 2), (0, 0, 0, 0, 0, 2): Fraction(1, 2),
                (0, 1, 0, 1, 0, 0): Fraction(1), (1, 0, 0, 0, 1, 0): Fraction(-1)}
        rest = dict(H.d)
        for e, c in base.items():
            rest[e] = rest.get(e, 0) - c
        rest = {e: c for e, c in rest.items() if c != 0}
        # expected: - sum cn_marks[n] * T_n  for n = 2..NMAX
        exp = {}
        for n in range(2, NMAX + 1):
            for e, c in Ts[n].d.items():
                exp[e] = exp.get(e, 0) - cn_marks[n] * c
        exp = {e: c for e, c in exp.items() if c != 0}
        txt += "def assemblyOK : Bool := %s   -- H = 1/2|p|^2 + y p_x - x p_y - sum_{n=2..N} c_n T_n, constant removed\n" % str(rest == exp).lower()
        ctx.extra["T_monomials"] = [len(Ts[n].d) for n in range(NMAX + 1)]
    except Exception as ex:
        ctx.broken.append(("trace:builders", repr(ex)))
        ctx.obligations["trace:builders"] = False
    # ---- triangular builders on exact polynomials ----------------------------------------------------------------
    try:
        rq = lambda q: "(%d, %d)" % (Fraction(q).numerator, Fraction(q).denominator)
        co3, wiring3, shape3 = tri_recurrence(NMAX, 0.5, 0.75)       # generic dyadic offset markers
        txt += "-- triangular expansion: coefficients (c1_m, c2_m) of A_m = c1 (d.r) A_(m-1) - c2 rho^2 A_(m-2) read back from the current builder\n"
        txt += "def triAB : List (Nat × (Int × Nat) × (Int × Nat)) := [%s]\n" % ", ".join("(%d, %s, %s)" % (n, rq(a), rq(b)) for n, a, b in co3)
        txt += "def triWiringOK : Bool := %s   -- A_0 = 1, A_1 = d.r, recurrence exactly as documented (offset markers d = (1/2, 3/4))\n" % str(wiring3).lower()
        txt += "def triShapeOK : Bool := %s   -- every A_n is homogeneous of degree n and free of momenta\n" % str(shape3).lower()
        for k, sgn in ((4, 1.0), (5, -1.0)):
            oks, offs = [], None
            for mu_m in (0.1875, 0.40625):     # two dyadic mass-parameter markers: the weights -(1-mu), -mu and (1/2-mu) are exact
                ok, o = tri_assembly(NMAX, mu_m, sgn, co3)
                oks.append(ok)
                offs = offs or o
                if offs != o:
                    oks.append(False)
            txt += ("def triAssemblyOK%d : Bool := %s   -- H = 1/2|p|^2 + y p_x - x p_y + (1/2-mu) x + d_y y - (1-mu) sum_(n<=N) A^S_n - mu sum_(n<=N) A^J_n, "
                    "constant removed\n" % (k, str(all(oks)).lower()))
            txt += "def triOffsets%d : List ((Int × Nat) × (Int × Nat)) := [%s]   -- (d_x, d_y) handed to _build_A_polynomials: primary, secondary\n" % (
                k, ", ".join("(%s, %s)" % (rq(a), rq(b)) for a, b in (offs or [])))
    except Exception as ex:
        ctx.broken.append(("trace:triangular-builders", repr(ex)))
        ctx.obligations["trace:triangular-builders"] = False
    txt += E.footer("C07")
    ctx.write_gen("HitenModel.Gen.C07", txt)
    from props import c04
    c04.gen(ctx)
    return TRC


def run(ctx):
    TRC = ctx.guard("regenerate", gen, ctx)
    ok = ctx.lean_build(["HitenModel.Props.C07"])
    if ok:
        ctx.lean_audit(["HitenModel.Props.C07"], ["HitenModel.Props.C07", "HitenModel.Gen.C07", "HitenModel.Lemmas.Legendre", "HitenModel.Lemmas.LegendreUnique", "HitenModel.Lemmas.LegendreLink", "HitenModel.Core.Legendre"])
        if ctx.thorough():
            ctx.leanchecker(["HitenModel.Props.C07"])
    if TRC is not None:
        ctx.guard("validate", validate, ctx, TRC)
    numerics(ctx)
    if not ctx.violations:
        public_api(ctx)
    ctx.rule = ("(mu, point L1..L5, degree N, direction in phase space) x radii; remainder exponents fitted over radii; distinct by (mu, point, N); "
                "non-trivial = every case")


def validate(ctx, TRC):
    """translation validation of the traced maps against the real functions on real points"""
    from hiten import System
    from hiten.algorithms.hamiltonian import transforms as tr
    worst = 0.0
    for mu in (0.0121505856, 3.0034e-6):
        sysm = System.from_mu(mu)
        for k, (phi, Ephi, acc) in TRC.items():
            L = sysm.get_libration_point(k)
            g = float(L.dynamics.gamma) if k <= 3 else 1.0
            from hiten.algorithms.common.energy import crtbp_energy
            from hiten.algorithms.dynamics.rtbp import _crtbp_accel
            for _ in range(10):
                c = np.array([ctx.rng.uniform(-0.05, 0.05) for _ in range(6)])
                env = dict(zip(LOCVARS[:6], c))
                env.update({"gamma": g, "mu": mu})
                got = (tr._local2synodic_collinear if k <= 3 else tr._local2synodic_triangular)(L, c)
                mod = np.array([T.evalf(p, env) for p in phi])
                err = float(np.abs(got - mod).max())
                # the composed energy / field terms against the compiled functions at the real image point
                err = max(err, abs(T.evalf(Ephi, env) - float(crtbp_energy(got, mu))) / (1 + abs(float(crtbp_energy(got, mu)))))
                fa = np.asarray(_crtbp_accel(got, mu), dtype=float)
                err = max(err, float(np.abs(np.array([T.evalf(a, env) for a in acc]) - fa).max() / (1 + np.abs(fa).max())))
                worst = max(worst, err)
                ctx.traces_validated += 1
                if not err <= 1e-13:
                    ctx.broken.append(("trace-validation:phi%d" % k, "traced local->synodic map differs from the real one by %g" % err))
                    ctx.obligations["trace-validation:phi%d" % k] = False
                    return
    ctx.obligations["trace-validation"] = True
    ctx.extra["trace_validation_worst_abs_err"] = worst


def public_api(ctx):
    """the observation points the property names: `point.hamiltonian(N, 'physical')` (polynomial, `__call__`, `hamsys.rhs`) for several points
    and systems IN ONE SESSION (the library caches pipelines and compiled right-hand sides): the polynomial handed out is bit for bit the one the
    builder produces for THAT point, its exposed vector field is the Hamilton field of ITS polynomial, and the local origin is the point."""
    from hiten import System
    from hiten.algorithms.dynamics.hamiltonian import _hamiltonian_rhs
    from hiten.algorithms.hamiltonian import transforms as tr
    from hiten.algorithms.hamiltonian.hamiltonian import _build_physical_hamiltonian_collinear
    rng = ctx.rng
    N = 4
    # Earth-Moon, then two Sun-planet-like systems whose mass parameters agree to six decimals
    for mu in (0.0121505856, 3.0034e-6, 3.0404e-6):
        sysm = System.from_mu(mu)
        for k in (1, 2):
            L = sysm.get_libration_point(k)
            ctx.case(("public-api", mu, k), nontrivial=True, kind="public-api:L%d" % k)
            try:
                H = L.hamiltonian(N, "physical")
                blocks = [np.asarray(b) for b in H.poly_H]
                hs = H.hamsys
                y = np.array([rng.uniform(-0.02, 0.02) for _ in range(6)])
                r_pub = np.asarray(hs.rhs(0.0, y), dtype=float)
                jac, clmo, nd = hs.rhs_params
                r_own = np.asarray(_hamiltonian_rhs(y, jac, clmo, nd), dtype=float)
            except Exception as ex:
                ctx.violation("public-api-raises:L%d" % k, "point.hamiltonian(%d, 'physical') / hamsys.rhs raised %r" % (N, ex), {"mu": mu, "point": k})
                return
            direct = [np.asarray(b) for b in _build_physical_hamiltonian_collinear(L, N)]
            if not (len(blocks) == len(direct) and all(np.array_equal(a, b) for a, b in zip(blocks, direct))):
                d = max(float(np.abs(a - b).max()) for a, b in zip(blocks, direct) if a.shape == b.shape and a.size)
                ctx.violation("public-hamiltonian-is-not-this-points:L%d" % k,
                              "point.hamiltonian(%d, 'physical').poly_H of L%d, mu=%r is not the polynomial the builder produces for this point (max coefficient difference %.3g)" % (N, k, mu, d),
                              {"mu": mu, "point": k, "degree": N, "history": "systems from_mu(0.0121505856), (3.0034e-6), (3.0404e-6) in one session, L1 then L2 each",
                               "max_coefficient_difference": d})
                return
            if not np.array_equal(r_pub, r_own):
                ctx.violation("public-rhs-is-not-this-hamiltonians:L%d" % k,
                              "hamsys.rhs of point.hamiltonian(%d, 'physical') (L%d, mu=%r) is not the Hamilton field of its own polynomial (max difference %.3g)" % (
                                  N, k, mu, float(np.abs(r_pub - r_own).max())),
                              {"mu": mu, "point": k, "degree": N, "state": y.tolist(), "rhs": r_pub.tolist(), "hamilton_field_of_own_polynomial": r_own.tolist()})
                return
            s0 = tr._local2synodic_collinear(L, np.zeros(6))
            pos = np.asarray(L.position, dtype=float)
            dev = float(np.abs(s0[:3] - pos).max())
            ctx.extra.setdefault("origin_vs_position", {})["%g:L%d" % (mu, k)] = dev
            if not dev <= 5e-12:
                ctx.violation("local-origin:L%d" % k, "the local origin of L%d, mu=%r is mapped %.3g away from point.position (gamma and the position are two "
                              "independent root solves of the same equilibrium)" % (k, mu, dev),
                              {"mu": mu, "point": k, "image_of_origin": s0.tolist(), "position": pos.tolist(), "gamma": float(L.dynamics.gamma)})
                return


def numerics(ctx):
    from numba.typed import List
    from hiten import System
    from hiten.algorithms.common.energy import crtbp_energy
    from hiten.algorithms.dynamics.hamiltonian import _hamiltonian_rhs
    from hiten.algorithms.dynamics.rtbp import _crtbp_accel
    from hiten.algorithms.hamiltonian import transforms as tr
    from hiten.algorithms.hamiltonian.hamiltonian import _build_physical_hamiltonian_collinear, _build_physical_hamiltonian_triangular
    from hiten.algorithms.polynomial.base import _create_encode_dict_from_clmo, _init_index_tables
    from hiten.algorithms.polynomial.operations import _polynomial_evaluate, _polynomial_jacobian
    rng = ctx.rng
    # building a Hamiltonian and compiling its evaluators costs tens of seconds per (point, degree): keep quick small
    mus = [0.0121505856] + ([3.0034e-6, 0.1] if ctx.thorough() else [])
    degs = [4, 6, 10] if ctx.thorough() else [[4, 5, 6][ctx.seed % 3]]
    for mu in mus:
        sysm = System.from_mu(mu)
        for k in (1, 2, 3, 4, 5):
            L = sysm.get_libration_point(k)
            coll = k <= 3
            gam = float(L.dynamics.gamma) if coll else 1.0
            phi = (lambda c: tr._local2synodic_collinear(L, c)) if coll else (lambda c: tr._local2synodic_triangular(L, c))
            s0 = phi(np.zeros(6))
            pos = np.asarray(L.position, dtype=float)
            if not (np.abs(s0[:3] - pos).max() <= 1e-9 and np.abs(s0[3:]).max() <= 1e-12):
                ctx.violation("local-origin:L%d" % k, "the local origin is not mapped to the libration point at rest: %r vs position %r" % (s0.tolist(), pos.tolist()),
                              {"mu": mu, "point": k, "image_of_origin": s0.tolist(), "position": pos.tolist()})
                return
            E0 = crtbp_energy(s0, mu)
            # distance to the nearest primary in local units limits the radius
            dmin = min(np.linalg.norm(pos - np.array([-mu, 0, 0])), np.linalg.norm(pos - np.array([1 - mu, 0, 0]))) / gam
            for N in degs:
                psi, clmo = _init_index_tables(N)
                enc = _create_encode_dict_from_clmo(clmo)
                builder = _build_physical_hamiltonian_collinear if coll else _build_physical_hamiltonian_triangular
                H = builder(L, N)
                # the expansion to degree N+1 must contain the expansion to degree N unchanged (a Taylor polynomial is nested)
                Hup = builder(L, N + 1)
                for dgr in range(N + 1):
                    a_, b_ = np.asarray(H[dgr]), np.asarray(Hup[dgr])
                    if a_.shape != b_.shape or not np.allclose(a_, b_, rtol=1e-12, atol=1e-13 * (1 + np.abs(b_).max())):
                        j = int(np.argmax(np.abs(a_ - b_))) if a_.shape == b_.shape else -1
                        ctx.violation("expansion-not-nested:L%d" % k, "the degree-%d block of the expansion truncated at N=%d differs from the same block of the expansion at N=%d" % (dgr, N, N + 1),
                                      {"mu": mu, "point": k, "N": N, "block": dgr, "slot": j,
                                       "coefficient_at_N": complex(a_[j]).__repr__() if j >= 0 else None, "coefficient_at_N+1": complex(b_[j]).__repr__() if j >= 0 else None})
                        return
                Hn = List()
                for h in H:
                    Hn.append(np.asarray(h, dtype=np.complex128))
                jac = _polynomial_jacobian(Hn, N, psi, clmo, enc)
                jt = List()
                for v in jac:
                    l = List()
                    for a in v:
                        l.append(a)
                    jt.append(l)
                u = np.array([rng.uniform(-1, 1) for _ in range(6)])
                u /= np.linalg.norm(u)
                radii = [0.08 * dmin, 0.04 * dmin, 0.02 * dmin]
                eH, eF = [], []
                for r in radii:
                    c = r * u
                    Hval = float(_polynomial_evaluate(Hn, c.astype(np.complex128), clmo).real)
                    Eex = (crtbp_energy(phi(c), mu) - E0) / gam ** 2
                    eH.append(abs(Hval - Eex))
                    cdot = np.asarray(_hamiltonian_rhs(c, jt, clmo, 3), dtype=float)
                    # push forward with the (affine) map: finite difference of phi is exact up to rounding
                    Jphi = np.column_stack([(phi(c + 1e-3 * e) - phi(c - 1e-3 * e)) / 2e-3 for e in np.eye(6)])
                    eF.append(float(np.linalg.norm(Jphi @ cdot - _crtbp_accel(phi(c), mu))))
                key = (round(mu, 12), k, N)
                floorH = 1e-13 * max(1.0, abs(E0)) / gam ** 2
                floorF = 1e-11 / gam
                def slope(es, fl):
                    ok = [(r, e) for r, e in zip(radii, es) if e > 20 * fl]
                    if len(ok) < 2:
                        return None
                    return math.log(ok[0][1] / ok[-1][1]) / math.log(ok[0][0] / ok[-1][0])
                sH, sF = slope(eH, floorH), slope(eF, floorF)
                ctx.case(key, nontrivial=True, kind="L%d:N%d" % (k, N), sample={"mu": mu, "point": k, "N": N, "energy_remainder": eH, "exponent": sH, "field_error": eF, "field_exponent": sF} if N == degs[0] and mu == mus[0] else None)
                ctx.extra.setdefault("exponents", {})["%.3g:L%d:N%d" % (mu, k, N)] = [None if sH is None else round(sH, 2), None if sF is None else round(sF, 2)]
                # value: remainder must be O(r^(N+1)): small in absolute terms at the smallest radius and with the right exponent when resolvable
                scale = max(abs(c) for c in [1.0])  # energies are O(1) in local units at r ~ dmin
                if not (eH[-1] <= 50 * (0.02) ** (N + 1) * max(1.0, 1.0 / dmin) + 50 * floorH) or (sH is not None and sH < N + 1 - 0.7):
                    ctx.violation("taylor-remainder:L%d" % k, "H_poly differs from (E o phi - E0)/gamma^2 by %r at radii %r (fitted exponent %r, expected >= %d)" % (eH, radii, sH, N + 1),
                                  {"mu": mu, "point": k, "N": N, "direction": u.tolist(), "radii": radii, "remainders": eH, "exponent": sH})
                    return
                if not (eF[-1] <= 200 * (0.02) ** N * max(1.0, 1.0 / dmin) / gam * max(1.0, gam) + 50 * floorF) or (sF is not None and sF < N - 0.7):
                    ctx.violation("field-conjugacy:L%d" % k, "Hamilton equations of H_poly mapped to the synodic frame differ from the CR3BP accelerations by %r at radii %r (fitted exponent %r, expected >= %d)" % (eF, radii, sF, N),
                                  {"mu": mu, "point": k, "N": N, "direction": u.tolist(), "radii": radii, "errors": eF, "exponent": sF})
                    return
