-- root of the library: every property module
import HitenModel.Props.C01
