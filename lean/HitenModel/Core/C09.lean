/- Core/C09.lean — hand model of the bookkeeping of hiten's centre-manifold <-> synodic conversions
   (import-free, executable).

Everything is polymorphic in the scalar type `K` and uses only notation classes, so the *same* definitions are
(a) executed over `Rat` by `Drivers/C09.lean` for the exact correspondence with the real code and
(b) reasoned about over an arbitrary linearly ordered field in `Props/C09.lean`.

Python object                                             model
--------------------------------------------------------  -------------------------------------------------
var_indices (solve_missing_coord)                          Name.idx
_CM_SECTION_TABLE / get_plane_coords / plane_labels        Sec.planeCoords
_STATE_INDEX (RestrictedCenterManifoldState)               Sec.stateIdx
lift_plane_point: missing-coordinate dict literal          Sec.missing
_cm_point_to_synodic_4d: real_6d_cm[1,4,2,5] = cm[0..3]    placeSlots / place6
synodic_to_cm: restricted[1,4,2,5]                         readSlots / read6
build_constraint_dict                                      constraints   (insertion-ordered association list)
solve_missing_coord.residual (state assembly)              residState / residual
solve_missing_coord (bracket expansion, root finder)       expandTo / solveCore / solveMissing
                                                           (`solve_bracketed_brent` = oracle `brent`)
build_state                                                buildState
lift_plane_point                                           liftPlanePoint
_to_real_4d_cm, _cm_point_to_synodic_from_section          toReal4dCm / sectionTo6
enforce_section_coordinate / plane_points_from_states      enforceRow / planePoint
_substitute_coordinates (6x6 matrix times 6-vector)        mulVec6
synodic_to_cm / _cm_point_to_synodic_4d (whole chains)     toCmChain / toSynodicChain (links are parameters)
-/
namespace HitenModel.C09

/-- the six canonical variable names, in the order of a 6-vector `[q1, q2, q3, p1, p2, p3]` -/
inductive Name where
  | q1 | q2 | q3 | p1 | p2 | p3
deriving DecidableEq, Repr, Inhabited

/-- `var_indices` of `solve_missing_coord` -/
def Name.idx : Name → Nat
  | .q1 => 0 | .q2 => 1 | .q3 => 2 | .p1 => 3 | .p2 => 4 | .p3 => 5

def Name.all : List Name := [.q1, .q2, .q3, .p1, .p2, .p3]

def Name.ofString? : String → Option Name
  | "q1" => some .q1 | "q2" => some .q2 | "q3" => some .q3
  | "p1" => some .p1 | "p2" => some .p2 | "p3" => some .p3
  | _ => none

/-- the four centre-manifold coordinates = the four admissible section coordinates -/
inductive Sec where
  | q2 | p2 | q3 | p3
deriving DecidableEq, Repr, Inhabited

/-- in the order of `RestrictedCenterManifoldState` -/
def Sec.all : List Sec := [.q2, .p2, .q3, .p3]

def Sec.name : Sec → Name
  | .q2 => .q2 | .p2 => .p2 | .q3 => .q3 | .p3 => .p3

def Sec.ofString? : String → Option Sec
  | "q2" => some .q2 | "p2" => some .p2 | "q3" => some .q3 | "p3" => some .p3
  | _ => none

/-- `_STATE_INDEX` -/
def Sec.stateIdx : Sec → Nat
  | .q2 => 0 | .p2 => 1 | .q3 => 2 | .p3 => 3

/-- `_CM_SECTION_TABLE[sc]["plane_coords"]` -/
def Sec.planeCoords : Sec → Sec × Sec
  | .q3 => (.q2, .p2) | .p3 => (.q2, .p2)
  | .q2 => (.q3, .p3) | .p2 => (.q3, .p3)

/-- the dict literal of `lift_plane_point`: which coordinate the energy equation is solved for -/
def Sec.missing : Sec → Sec
  | .q3 => .p3 | .p3 => .q3 | .q2 => .p2 | .p2 => .q2

/-- `other_coords` of `lift_plane_point` -/
def Sec.otherCoords (sc : Sec) : Sec × Sec :=
  if sc.planeCoords = (.q2, .p2) then (.q3, .p3) else (.q2, .p2)

/-- a centre-manifold point `(q2, p2, q3, p3)` -/
structure St (K : Type) where
  q2 : K
  p2 : K
  q3 : K
  p3 : K
deriving Repr, DecidableEq, Inhabited

/-- result of a call that may raise or return `None` -/
inductive Res (α : Type) where
  | error            -- the Python code raises (BackendError / RuntimeError)
  | none             -- the Python code returns `None`
  | ok (x : α)
deriving Repr, DecidableEq, Inhabited

def Res.ofOption {α : Type} : Option α → Res α
  | some x => .ok x
  | Option.none => .none

section
variable {K : Type}

def St.get (s : St K) : Sec → K
  | .q2 => s.q2 | .p2 => s.p2 | .q3 => s.q3 | .p3 => s.p3

def St.set (s : St K) (c : Sec) (v : K) : St K :=
  match c with
  | .q2 => { s with q2 := v } | .p2 => { s with p2 := v }
  | .q3 => { s with q3 := v } | .p3 => { s with p3 := v }

def St.toList (s : St K) : List K := [s.q2, s.p2, s.q3, s.p3]

variable [OfNat K 0]

def St.ofList (l : List K) : St K := ⟨l.getD 0 0, l.getD 1 0, l.getD 2 0, l.getD 3 0⟩

/-! ### index placement of `_cm_point_to_synodic_4d` and `synodic_to_cm` -/

/-- slot of the 6-vector that receives `cm_coords_4d[i]` -/
def placeSlots : List Nat := [1, 4, 2, 5]
/-- slot of the 6-vector that `synodic_to_cm` returns as component `i` -/
def readSlots : List Nat := [1, 4, 2, 5]

/-- `np.zeros(6)` with `z[tbl[i]] = v[i]` in order -/
def placeBy (tbl : List Nat) (v : List K) : List K :=
  (tbl.zip v).foldl (fun z iv => z.set iv.1 iv.2) (List.replicate 6 0)

def readBy (tbl : List Nat) (z : List K) : List K := tbl.map fun i => z.getD i 0

/-- `real_6d_cm` of `_cm_point_to_synodic_4d` -/
def place6 (s : St K) : List K := placeBy placeSlots s.toList
/-- the 4-vector returned by `synodic_to_cm` from the real partial-normal-form 6-vector -/
def read6 (z : List K) : St K := St.ofList (readBy readSlots z)

/-! ### the energy equation of `solve_missing_coord` -/

/-- `state` of `residual(x)`: zeros, then the fixed values in dict order, then the solved slot -/
def residState (fixed : List (Name × K)) (solve : Name) (x : K) : List K :=
  (fixed.foldl (fun z nv => z.set nv.1.idx nv.2) (List.replicate 6 0)).set solve.idx x

variable [Sub K]

/-- `residual(x) = H(state) - h0` (`H` = `_polynomial_evaluate(H_blocks, ·, clmo).real`) -/
def residual (H : List K → K) (h0 : K) (fixed : List (Name × K)) (solve : Name) (x : K) : K :=
  H (residState fixed solve x) - h0

variable [Mul K] [Neg K] [LT K] [LE K] [DecidableLT K] [DecidableLE K]

/-- the `while r_b <= 0.0 and n_expand < max_expand: b *= expand_factor` loop; fuel = remaining expansions.
Returns the final end point `b` (the residual there is `res b`). -/
def expandTo (res : K → K) (factor : K) : Nat → K → K
  | 0, b => b
  | n + 1, b => if res b ≤ 0 then expandTo res factor n (b * factor) else b

/-- the end points at which the loop evaluates the residual, in order (starting with the initial guess) -/
def expandQueries (res : K → K) (factor : K) : Nat → K → List K
  | 0, b => [b]
  | n + 1, b => if res b ≤ 0 then b :: expandQueries res factor n (b * factor) else [b]

structure Params (K : Type) where
  guess : K          -- initial_guess
  factor : K         -- expand_factor
  maxExpand : Nat    -- max_expand
  symmetric : Bool
deriving Repr, Inhabited

/-- `solve_missing_coord` after the variable name has been resolved.  `brent a b` is the oracle for
`solve_bracketed_brent(residual, a, b, xtol, 200)` (`none` = it returned `None`). -/
def solveCore (res : K → K) (brent : K → K → Option K) (P : Params K) : Res K :=
  if res 0 > 0 then .none
  else
    let b := expandTo res P.factor P.maxExpand P.guess
    if res b > 0 then Res.ofOption (brent 0 b)
    else if P.symmetric then
      let a := expandTo res P.factor P.maxExpand (-P.guess)
      if res a > 0 then Res.ofOption (brent a 0) else .none
    else .none

/-- the bracket handed to the root finder (if any) -/
def solveBracket (res : K → K) (P : Params K) : Option (K × K) :=
  if res 0 > 0 then none
  else
    let b := expandTo res P.factor P.maxExpand P.guess
    if res b > 0 then some (0, b)
    else if P.symmetric then
      let a := expandTo res P.factor P.maxExpand (-P.guess)
      if res a > 0 then some (a, 0) else none
    else none

/-- every point at which `solve_missing_coord` itself evaluates the residual, in order -/
def solveQueries (res : K → K) (P : Params K) : List K :=
  if res 0 > 0 then [0]
  else
    let up := expandQueries res P.factor P.maxExpand P.guess
    let b := expandTo res P.factor P.maxExpand P.guess
    if res b > 0 then 0 :: up
    else if P.symmetric then 0 :: up ++ expandQueries res P.factor P.maxExpand (-P.guess)
    else 0 :: up

/-- `solve_missing_coord(varname, fixed_vals, h0=…, H_blocks=…)`; `var = none` models a name outside `var_indices` -/
def solveMissing (H : List K → K) (h0 : K) (brent : K → K → Option K) (P : Params K)
    (var : Option Name) (fixed : List (Name × K)) : Res K :=
  match var with
  | Option.none => .error
  | some v => solveCore (residual H h0 fixed v) brent P

/-! ### section bookkeeping -/

/-- `build_constraint_dict(section_coord, plane_coords[0]=…, plane_coords[1]=…)` -/
def constraints (sc : Sec) (plane : K × K) : List (Name × K) :=
  [(sc.name, 0), (sc.planeCoords.1.name, plane.1), (sc.planeCoords.2.name, plane.2)]

/-- `_CenterManifoldSectionInterface.build_state` -/
def buildState (sc : Sec) (plane other : K × K) : St K :=
  let s : St K :=
    if sc.planeCoords = (.q2, .p2) then ⟨plane.1, plane.2, other.1, other.2⟩
    else ⟨other.1, other.2, plane.1, plane.2⟩
  s.set sc 0

/-- `other_vals` of `lift_plane_point` for a solved value `x` -/
def otherVals (sc : Sec) (x : K) : K × K :=
  if sc.missing = sc.otherCoords.1 then (x, 0) else (0, x)

/-- `lift_plane_point` -/
def liftPlanePoint (H : List K → K) (h0 : K) (brent : K → K → Option K) (P : Params K)
    (sc : Sec) (plane : K × K) : Res (St K) :=
  match solveMissing H h0 brent P (some sc.missing.name) (constraints sc plane) with
  | .error => .error
  | .none => .none
  | .ok x => .ok (buildState sc plane (otherVals sc x))

/-- `_to_real_4d_cm`: a failed lift raises `RuntimeError` -/
def toReal4dCm (H : List K → K) (h0 : K) (brent : K → K → Option K) (P : Params K)
    (sc : Sec) (plane : K × K) : Res (St K) :=
  match liftPlanePoint H h0 brent P sc plane with
  | .ok s => .ok s
  | _ => .error

/-- the 6-vector that `_cm_point_to_synodic_from_section` feeds into the Lie-series chain -/
def sectionTo6 (H : List K → K) (h0 : K) (brent : K → K → Option K) (P : Params K)
    (sc : Sec) (plane : K × K) : Res (List K) :=
  match toReal4dCm H h0 brent P sc plane with
  | .ok s => .ok (place6 s)
  | .error => .error
  | .none => .none

/-- one row of `enforce_section_coordinate` -/
def enforceRow (sc : Sec) (row : List K) : List K := row.set sc.stateIdx 0
/-- one row of `plane_points_from_states` -/
def planePoint (sc : Sec) (row : List K) : K × K :=
  (row.getD sc.planeCoords.1.stateIdx 0, row.getD sc.planeCoords.2.stateIdx 0)

/-! ### polynomials (for the scripted residuals of the correspondence) and 6x6 matrices -/

variable [Add K] [OfNat K 1]

def powN (x : K) : Nat → K
  | 0 => 1
  | n + 1 => powN x n * x

/-- monomial `c · ∏ z_i^{k_i}` -/
def evalMono (c : K) : List Nat → List K → K
  | k :: ks, z :: zs => evalMono (c * powN z k) ks zs
  | _, _ => c

/-- sparse polynomial in six variables -/
def evalPoly (terms : List (K × List Nat)) (z : List K) : K :=
  terms.foldl (fun acc t => acc + evalMono t.1 t.2 z) 0

def dot6 : List K → List K → K
  | a :: as, b :: bs => a * b + dot6 as bs
  | _, _ => 0

/-- `_substitute_coordinates(coords, matrix)` -/
def mulVec6 (M : List (List K)) (v : List K) : List K := M.map fun row => dot6 row v

end

/-! ### the conversion chains (`synodic_to_cm`, `_cm_point_to_synodic_4d`); every link is a parameter -/

/-- the links of the chains.  `V` = 6-vectors. -/
structure Links (V : Type) where
  solveComplex : V → V      -- `_solve_complex`   (M⁻¹ ·)
  solveReal : V → V         -- `_solve_real`      (M ·)
  lieFwd : V → V            -- `_evaluate_transform(expansions(inverse=False), ·)`
  lieInv : V → V            -- `_evaluate_transform(expansions(inverse=True), ·)`
  modal2local : V → V       -- `_coordrealmodal2local` (C ·)
  local2modal : V → V       -- `_coordlocal2realmodal` (C⁻¹ ·)
  local2syn : V → V         -- `_local2synodic_collinear`
  syn2local : V → V         -- `_synodic2local_collinear`

/-- `_cm_point_to_synodic_4d` after the placement -/
def toSynodicChain {V : Type} (L : Links V) (z : V) : V :=
  L.local2syn (L.modal2local (L.solveReal (L.lieFwd (L.solveComplex z))))

/-- `synodic_to_cm` before the final read -/
def toCmChain {V : Type} (L : Links V) (s : V) : V :=
  L.solveReal (L.lieInv (L.solveComplex (L.local2modal (L.syn2local s))))

end HitenModel.C09
