import HitenModel.Lemmas.C19
namespace HitenModel.C19
end HitenModel.C19
