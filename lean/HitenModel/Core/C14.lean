/-
  Core/C14.lean — executable model over ℚ of hiten's centre-manifold Poincaré map
  (`algorithms/poincare/centermanifold/{backend,engine,interfaces}.py`):

  * `detect`        — `_detect_crossing` (hand model with the *documented* direction) and `runPaths`, the semantics of the
                      path table that the translator regenerates from the current source on every run (`Gen/C14.lean`);
  * `poincareStep`  — the loop of `_poincare_step` with the integrator step and the Hamiltonian vector field as oracle
                      parameters and the Hermite interpolant as a parameter (the driver plugs in the traced source);
  * `backendRun`, `worker`, `arraySplit`, `solveWith`, `solve` — `_CenterManifoldBackend.run` (successes kept in seed
                      order), the per-chunk iteration of `_CenterManifoldEngine.solve._worker`, `np.array_split`, the
                      gathering of the futures in an arbitrary completion order, `enforce_section_coordinate`,
                      `plane_points_from_states`;
  * `chain`         — the sequential per-seed specification the engine is compared with in `Props/C14.lean`.

  No Mathlib.  Everything is total and structurally recursive.  Rational arithmetic is exact, so on dyadic inputs whose
  quotients are dyadic the float code and the model must agree *exactly*.
-/
import HitenModel.Core.RE

namespace HitenModel.C14

abbrev Vec := List Rat

/-- the four section coordinates of the centre-manifold map -/
inductive Sec where
  | q2 | p2 | q3 | p3
deriving DecidableEq, Repr, Inhabited

namespace Sec

def all : List Sec := [q2, p2, q3, p3]

def name : Sec → String
  | q2 => "q2" | p2 => "p2" | q3 => "q3" | p3 => "p3"

def ofName? (s : String) : Option Sec :=
  if s = "q2" then some q2 else if s = "p2" then some p2 else if s = "q3" then some q3
  else if s = "p3" then some p3 else none

/-- column of the coordinate in the 4-column rows `(q2, p2, q3, p3)` the backend returns and the engine feeds back -/
def col : Sec → Nat
  | q2 => 0 | p2 => 1 | q3 => 2 | p3 => 3

/-- index of the coordinate in the 6-vector `[q1, q2, q3, p1, p2, p3]` the integrator works on -/
def idx6 : Sec → Nat
  | q2 => 1 | q3 => 2 | p2 => 4 | p3 => 5

/-- canonically conjugate coordinate -/
def conj : Sec → Sec
  | q2 => p2 | p2 => q2 | q3 => p3 | p3 => q3

def isQ : Sec → Bool
  | q2 => true | q3 => true | _ => false

end Sec

/-! ### rational evaluation of traced `RE` terms -/

def evalQ (ρ : Nat → Rat) : RE → Rat
  | .var i => ρ i
  | .const n d => (n : Rat) / (d : Rat)
  | .add a b => evalQ ρ a + evalQ ρ b
  | .sub a b => evalQ ρ a - evalQ ρ b
  | .mul a b => evalQ ρ a * evalQ ρ b
  | .div a b => evalQ ρ a / evalQ ρ b
  | .neg a => - evalQ ρ a
  | .pow a n => evalQ ρ a ^ n
  | .sqrt _ => 0

def sqrtFree : RE → Bool
  | .var _ => true
  | .const _ _ => true
  | .add a b => sqrtFree a && sqrtFree b
  | .sub a b => sqrtFree a && sqrtFree b
  | .mul a b => sqrtFree a && sqrtFree b
  | .div a b => sqrtFree a && sqrtFree b
  | .neg a => sqrtFree a
  | .pow a _ => sqrtFree a
  | .sqrt _ => false

def envL (l : List Rat) : Nat → Rat := fun i => l.getD i 0

/-- variables of the `_hermite_scalar` trace: 0 s, 1 y0, 2 y1, 3 dy0, 4 dy1, 5 dt -/
def env6 (s y0 y1 d0 d1 dt : Rat) : Nat → Rat := envL [s, y0, y1, d0, d1, dt]

/-- variables of the `_detect_crossing` trace: 0..5 `state_old`, 6..11 `state_new`, 12..17 `rhs_new` -/
def env18 (so sn rn : Vec) : Nat → Rat := fun i =>
  if i < 6 then so.getD i 0 else if i < 12 then sn.getD (i - 6) 0 else rn.getD (i - 12) 0

/-! ### `_detect_crossing` -/

/-- the documented direction indicator: for a position section the conjugate momentum of the new state (`p₃ > 0` for
`q₃`, `p₂ > 0` for `q₂`), for a momentum section the time derivative of that momentum at the new state -/
def dirVal (sec : Sec) (sn rn : Vec) : Rat :=
  match sec with
  | .q3 => sn.getD 5 0
  | .q2 => sn.getD 4 0
  | .p3 => rn.getD 5 0
  | .p2 => rn.getD 4 0

/-- `_detect_crossing`: `some α` = `(True, α)`, `none` = `(False, 0.0)` -/
def detect (sec : Sec) (so sn rn : Vec) : Option Rat :=
  let fo := so.getD sec.idx6 0
  let fn := sn.getD sec.idx6 0
  if fo * fn ≥ 0 then none
  else if dirVal sec sn rn > 0 then some (fo / (fo - fn))
  else none

/-- what the function returns as a pair -/
def detectPair (sec : Sec) (so sn rn : Vec) : Bool × Rat :=
  match detect sec so sn rn with
  | some a => (true, a)
  | none => (false, 0)

/-- comparison operators recorded by the concolic tracer -/
inductive Cmp where
  | lt | le | gt | ge | eq | ne
deriving DecidableEq, Repr, Inhabited

def Cmp.holds : Cmp → Rat → Rat → Bool
  | .lt, a, b => decide (a < b)
  | .le, a, b => decide (a ≤ b)
  | .gt, a, b => decide (b < a)
  | .ge, a, b => decide (b ≤ a)
  | .eq, a, b => decide (a = b)
  | .ne, a, b => !decide (a = b)

/-- one executed control-flow path of a traced function: the comparisons it took with their outcomes and the value it
returned -/
structure Path where
  conds : List (Cmp × RE × RE × Bool)
  crossed : Bool
  alpha : RE
deriving Repr, Inhabited

/-- do the recorded comparisons have the recorded outcomes at `ρ` -/
def condsOk (ρ : Nat → Rat) (l : List (Cmp × RE × RE × Bool)) : Bool :=
  l.all fun c => c.1.holds (evalQ ρ c.2.1) (evalQ ρ c.2.2.1) == c.2.2.2

def Path.ok (ρ : Nat → Rat) (p : Path) : Bool := condsOk ρ p.conds

/-- variables of the `_CenterManifoldBackend.run` trace: 0..3 seed row, 4 dt, 10+6j+i = X_j[i] (j = 1,2,3),
40+6j+i = R_j[i] (j = 0..3) -/
def envB (seed : Vec) (dt : Rat) (x1 x2 x3 r0 r1 r2 r3 : Vec) : Nat → Rat := fun i =>
  if i < 4 then seed.getD i 0 else if i = 4 then dt
  else if i < 16 then 0
  else if i < 22 then x1.getD (i - 16) 0 else if i < 28 then x2.getD (i - 22) 0 else if i < 34 then x3.getD (i - 28) 0
  else if i < 40 then 0
  else if i < 46 then r0.getD (i - 40) 0 else if i < 52 then r1.getD (i - 46) 0
  else if i < 58 then r2.getD (i - 52) 0 else if i < 64 then r3.getD (i - 58) 0 else 0

/-- semantics of a path table: the result of the first path whose conditions hold (`none`: the table is incomplete) -/
def runPaths (ρ : Nat → Rat) : List Path → Option (Bool × Rat)
  | [] => none
  | p :: ps => if p.ok ρ then some (p.crossed, evalQ ρ p.alpha) else runPaths ρ ps

/-! ### `_poincare_step` -/

structure Hit where
  state : Vec          -- (q2, p2, q3, p3)
  time : Rat
deriving DecidableEq, Repr, Inhabited

/-- `state_old` of `_poincare_step`: `[0, q2, q3, 0, p2, p3]` from the seed row `(q2, p2, q3, p3)` -/
def embed (s : Vec) : Vec := [0, s.getD 0 0, s.getD 2 0, 0, s.getD 1 0, s.getD 3 0]

structure StepCfg where
  sec : Sec
  dt : Rat
  maxSteps : Nat
  /-- one integrator step of size `dt` (`_integrate_map(...)[1]`): oracle -/
  flow : Vec → Vec
  /-- `_hamiltonian_rhs`: oracle -/
  rhs : Vec → Vec
  /-- `_hermite_scalar s y0 y1 dy0 dy1 dt`: parameter (the driver plugs in the traced source) -/
  herm : Rat → Rat → Rat → Rat → Rat → Rat → Rat

/-- the Hermite-refined point `(q2', p2', q3', p3')` -/
def refine (c : StepCfg) (a : Rat) (old new : Vec) : Vec :=
  let ro := c.rhs old
  let rn := c.rhs new
  let h := fun i => c.herm a (old.getD i 0) (new.getD i 0) (ro.getD i 0) (rn.getD i 0) c.dt
  [h 1, h 4, h 2, h 5]

/-- the loop of `_poincare_step` with `fuel` steps left, current state `old`, elapsed time `el` -/
def stepLoop (c : StepCfg) : Nat → Vec → Rat → Option Hit
  | 0, _, _ => none
  | n + 1, old, el =>
    let new := c.flow old
    match detect c.sec old new (c.rhs new) with
    | some a => some ⟨refine c a old new, el + a * c.dt⟩
    | none => stepLoop c n new (el + c.dt)

def poincareStep (c : StepCfg) (seed : Vec) : Option Hit := stepLoop c c.maxSteps (embed seed) 0

/-- `k`-fold integrator step -/
def iter (f : Vec → Vec) : Nat → Vec → Vec
  | 0, x => x
  | n + 1, x => iter f n (f x)

/-! ### engine -/

/-- `enforce_section_coordinate` on one row, for a zeroed column `i` -/
def zeroAt (i : Nat) (s : Vec) : Vec := s.set i 0

def enfHit (enf : Vec → Vec) (h : Hit) : Hit := { h with state := enf h.state }

/-- `_CenterManifoldBackend.run`: one return step per seed, successes kept in seed order -/
def backendRun (step : Vec → Option Hit) (seeds : List Vec) : List Hit := seeds.filterMap step

/-- `_worker(chunk)`: `nIter` iterations, survivors (with the section coordinate enforced) fed back -/
def worker (step : Vec → Option Hit) (enf : Vec → Vec) : Nat → List Vec → List Hit
  | 0, _ => []
  | n + 1, seeds =>
    let r := (backendRun step seeds).map (enfHit enf)
    if r.isEmpty then [] else r ++ worker step enf n (r.map (·.state))

/-- sizes of `np.array_split(l, n)`: the first `len % n` chunks have `len / n + 1` rows, the others `len / n` -/
def splitSizes (len n : Nat) : List Nat :=
  (List.range n).map fun i => len / n + (if i < len % n then 1 else 0)

def takeChunks {α : Type} : List Nat → List α → List (List α)
  | [], _ => []
  | k :: ks, l => l.take k :: takeChunks ks (l.drop k)

def arraySplit {α : Type} (l : List α) (n : Nat) : List (List α) := takeChunks (splitSizes l.length n) l

/-- the futures submitted by `solve`: one per non-empty chunk -/
def workerResults (step : Vec → Option Hit) (enf : Vec → Vec) (nIter nWorkers : Nat) (seeds : List Vec) :
    List (List Hit) :=
  ((arraySplit seeds (max 1 nWorkers)).filter (fun c => !c.isEmpty)).map (worker step enf nIter)

/-- gathering: the results arrive in the order `done`; empty ones are skipped; the section coordinate is enforced once
more on the stacked array -/
def solveWith (enf : Vec → Vec) (done : List (List Hit)) : List Hit :=
  ((done.filter (fun r => !r.isEmpty)).flatten).map (enfHit enf)

/-- completion order given as a list of future indices -/
def pick {α : Type} (l : List α) (order : List Nat) : List α := order.filterMap (l[·]?)

inductive SolveResult where
  | error                          -- `EngineError("Seed strategy produced no valid points inside Hill boundary")`
  | ok (hits : List Hit) (points : List Vec)
deriving DecidableEq, Repr, Inhabited

/-- `plane_points_from_states` on one row -/
def planeOf (i j : Nat) (s : Vec) : Vec := [s.getD i 0, s.getD j 0]

structure EngineCfg where
  step : Vec → Option Hit
  /-- `lift_plane_point`: oracle (`none`: outside the Hill region) -/
  lift : Vec → Option Vec
  zeroCol : Nat
  planeI : Nat
  planeJ : Nat
  nIter : Nat
  nWorkers : Nat

def solve (c : EngineCfg) (planePts : List Vec) (order : List Nat) : SolveResult :=
  let seeds := planePts.filterMap c.lift
  if seeds.isEmpty then .error
  else
    let res := workerResults c.step (zeroAt c.zeroCol) c.nIter c.nWorkers seeds
    let hits := solveWith (zeroAt c.zeroCol) (pick res order)
    .ok hits (hits.map fun h => planeOf c.planeI c.planeJ h.state)

/-- sequential specification: the chain of successive returns of one seed (stops at the first failed return) -/
def chain (step : Vec → Option Hit) (enf : Vec → Vec) : Nat → Vec → List Hit
  | 0, _ => []
  | n + 1, s =>
    match step s with
    | none => []
    | some h => enfHit enf h :: chain step enf n (enf h.state)

end HitenModel.C14
