/- GENERATED on every run by harness/props/c08.py from the current source — do not edit.
   kTable: (N_max, deg_G, brackets taken by _apply_poly_transform, brackets taken by _apply_coord_transform),
   observed by executing the current py_funcs with a counting Poisson bracket (inputs whose iterated brackets vanish only by truncation);
   guardTol: the threshold t of `abs(denom) < t` in _solve_homological_equation located by bisection on the
   compiled function (exact value of the float); default tolerances from the live signatures. -/
namespace HitenModel.Gen.C08

def kTable : List (Nat × Nat × Nat × Nat) := [
  (3, 3, 3, 3),
  (4, 3, 4, 4),
  (4, 4, 4, 4),
  (5, 3, 5, 5),
  (5, 4, 5, 5),
  (5, 5, 5, 5),
  (6, 3, 6, 6),
  (6, 4, 6, 6),
  (6, 5, 6, 6),
  (6, 6, 6, 6),
  (7, 3, 7, 7),
  (7, 4, 7, 7),
  (7, 5, 7, 7),
  (7, 6, 7, 7),
  (7, 7, 7, 7),
  (8, 3, 8, 8),
  (8, 4, 8, 8),
  (8, 5, 8, 8),
  (8, 6, 8, 8),
  (8, 7, 8, 8),
  (8, 8, 8, 8),
  (9, 3, 9, 9),
  (9, 4, 9, 9),
  (9, 5, 9, 9),
  (9, 6, 9, 9),
  (9, 7, 9, 9),
  (9, 8, 9, 9),
  (9, 9, 9, 9),
  (10, 3, 10, 10),
  (10, 4, 10, 10),
  (10, 5, 10, 10),
  (10, 6, 10, 10),
  (10, 7, 10, 10),
  (10, 8, 10, 10),
  (10, 9, 10, 10),
  (10, 10, 10, 10)]

def guardTol : Rat := ((6338253001141147 : Rat) / 633825300114114700748351602688)
def tolPartialDefault : Rat := ((178405961588245 : Rat) / 178405961588244985132285746181186892047843328)
def tolFullDefault : Rat := ((178405961588245 : Rat) / 178405961588244985132285746181186892047843328)
def resonanceTolDefault : Rat := ((6338253001141147 : Rat) / 633825300114114700748351602688)
def tolExpansionDefault : Rat := ((178405961588245 : Rat) / 178405961588244985132285746181186892047843328)

end HitenModel.Gen.C08
