/-
  Lemmas/Mirror.lean — the mirror theorem for reversible vector fields.
  `g` is a vector field on a real normed space, `R` a continuous linear map with `g (R u) = −R (g u)` on an `R`-invariant set `U`
  on which `g` is Lipschitz (uniqueness: Mathlib's `ODE_solution_unique_univ`).  A solution that meets the fixed set of `R` at time `a`
  is symmetric about `a`; a solution that meets it at `0` and at `T/2` is `T`-periodic.
-/
import Mathlib.Analysis.ODE.ExistUnique
import Mathlib.Analysis.Calculus.Deriv.Shift
import Mathlib.Analysis.Calculus.Deriv.Add
import Mathlib.Analysis.Calculus.FDeriv.Linear
import Mathlib.Analysis.Calculus.Deriv.Comp

namespace HitenModel.Mirror
open Set

variable {E : Type*} [NormedAddCommGroup E] [NormedSpace ℝ E]

/-- chain rule for `t ↦ x (c - t)` -/
theorem hasDerivAt_comp_const_sub {x : ℝ → E} {x' : E} {c t : ℝ} (hx : HasDerivAt x x' (c - t)) :
    HasDerivAt (fun s => x (c - s)) (-x') t := by
  have h := hx.scomp t ((hasDerivAt_const t c).sub (hasDerivAt_id t))
  simpa [Function.comp_def] using h

/-- **reflection of a solution**: if the solution `x` of `x' = g(x)` meets the fixed set of the reversing symmetry `R` at time `a`
(`R (x a) = x a`), then it is symmetric about `a`: `R (x (2a − t)) = x t` for every `t`. -/
theorem reflect_solution {g : E → E} {U : Set E} {K : NNReal} (hL : LipschitzOnWith K g U)
    (R : E →L[ℝ] E) (hRU : ∀ u ∈ U, R u ∈ U) (hrev : ∀ u ∈ U, g (R u) = -(R (g u)))
    {x : ℝ → E} (hx : ∀ t, HasDerivAt x (g (x t)) t) (hxU : ∀ t, x t ∈ U) (a : ℝ) (ha : R (x a) = x a) (t : ℝ) :
    R (x (2 * a - t)) = x t := by
  have hy : ∀ s, HasDerivAt (fun s => R (x (2 * a - s))) (g (R (x (2 * a - s)))) s := by
    intro s
    have h1 : HasDerivAt (fun s => x (2 * a - s)) (-(g (x (2 * a - s)))) s := hasDerivAt_comp_const_sub (hx (2 * a - s))
    have h2 := R.hasFDerivAt.comp_hasDerivAt s h1
    have e : R (-(g (x (2 * a - s)))) = g (R (x (2 * a - s))) := by
      rw [hrev _ (hxU _), map_neg]
    rw [e] at h2
    exact h2
  have := ODE_solution_unique_univ (v := fun _ u => g u) (s := fun _ => U) (f := fun s => R (x (2 * a - s))) (g := x)
    (t₀ := a) (fun _ => hL) (fun s => ⟨hy s, hRU _ (hxU _)⟩) (fun s => ⟨hx s, hxU s⟩)
    (by show R (x (2 * a - a)) = x a; rw [show 2 * a - a = a by ring]; exact ha)
  exact congrFun this t

/-- **mirror theorem**: a solution of a reversible field that meets the fixed set of the reversing symmetry at `t = 0` and at
`t = T/2` is periodic with period `T` (in particular `x T = x 0`). -/
theorem mirror_theorem {g : E → E} {U : Set E} {K : NNReal} (hL : LipschitzOnWith K g U)
    (R : E →L[ℝ] E) (hRU : ∀ u ∈ U, R u ∈ U) (hrev : ∀ u ∈ U, g (R u) = -(R (g u)))
    {x : ℝ → E} (hx : ∀ t, HasDerivAt x (g (x t)) t) (hxU : ∀ t, x t ∈ U) (T : ℝ)
    (h0 : R (x 0) = x 0) (hh : R (x (T / 2)) = x (T / 2)) (t : ℝ) : x (t + T) = x t := by
  have r0 := reflect_solution hL R hRU hrev hx hxU 0 h0
  have rh := reflect_solution hL R hRU hrev hx hxU (T / 2) hh
  have e1 : R (x (-t)) = x t := by simpa using r0 t
  have e2 : R (x (2 * (T / 2) - (t + T))) = x (t + T) := rh (t + T)
  rw [show 2 * (T / 2) - (t + T) = -t by ring] at e2
  rw [← e2, e1]

/-- **doubly symmetric orbits**: two reversing symmetries `R₁`, `R₂` whose product is an involution; a solution that meets the fixed
set of `R₁` at `t = 0` and the fixed set of `R₂` at `t = T/4` satisfies `x (t + T/2) = R₂ (R₁ (x t))` and is periodic with period `T`
(the event of the vertical family is a QUARTER period). -/
theorem mirror_theorem_quarter {g : E → E} {U : Set E} {K : NNReal} (hL : LipschitzOnWith K g U)
    (R₁ R₂ : E →L[ℝ] E) (hRU₁ : ∀ u ∈ U, R₁ u ∈ U) (hRU₂ : ∀ u ∈ U, R₂ u ∈ U)
    (hrev₁ : ∀ u ∈ U, g (R₁ u) = -(R₁ (g u))) (hrev₂ : ∀ u ∈ U, g (R₂ u) = -(R₂ (g u)))
    (hinv : ∀ u, R₂ (R₁ (R₂ (R₁ u))) = u)
    {x : ℝ → E} (hx : ∀ t, HasDerivAt x (g (x t)) t) (hxU : ∀ t, x t ∈ U) (T : ℝ)
    (h0 : R₁ (x 0) = x 0) (hq : R₂ (x (T / 4)) = x (T / 4)) (t : ℝ) :
    x (t + T / 2) = R₂ (R₁ (x t)) ∧ x (t + T) = x t := by
  have r1 := reflect_solution hL R₁ hRU₁ hrev₁ hx hxU 0 h0
  have r2 := reflect_solution hL R₂ hRU₂ hrev₂ hx hxU (T / 4) hq
  have half : ∀ s, x (s + T / 2) = R₂ (R₁ (x s)) := by
    intro s
    have e1 : R₁ (x s) = x (-s) := by simpa using r1 (-s)
    have e2 : R₂ (x (2 * (T / 4) - (s + T / 2))) = x (s + T / 2) := r2 (s + T / 2)
    rw [show 2 * (T / 4) - (s + T / 2) = -s by ring] at e2
    rw [← e2, e1]
  refine ⟨half t, ?_⟩
  have := half (t + T / 2)
  rw [show t + T / 2 + T / 2 = t + T by ring, half t] at this
  rw [this, hinv]

end HitenModel.Mirror
