#!/bin/bash
# Build the Lean library from files on disk (offline).  Generated modules (lean/HitenModel/Gen) are committed and are
# regenerated from /repo by every check; lake only rebuilds what changed.
set -e
cd "$(dirname "$0")/lean"
lake build 2>&1 | grep -v "^warning\|unused\|Hint\|apply\]\|Note:\|^\s*$" | tail -40
exit ${PIPESTATUS[0]}
