/-
  Lemmas/C04Tri.lean — helper lemmas for the triangular points (L4/L5) of property C04: the hand Hessian of the quadratic
  Hamiltonian, the numerators of the traced normal-form matrix, and the 36 + 36 polynomial identities `ĈᵀJĈ`, `ĈᵀSĈ` modulo the two
  Vieta relations (cofactors computed offline with sympy, re-checked here by `linear_combination`).
-/
import HitenModel.Gen.C04
import HitenModel.Lemmas.REReal
import Mathlib.Tactic.FieldSimp
import Mathlib.Tactic.Ring
import Mathlib.Tactic.LinearCombination
import Mathlib.Tactic.IntervalCases
import Mathlib.Tactic.NormNum
import Mathlib.Algebra.BigOperators.Intervals

namespace HitenModel.Lemmas.C04Tri
open HitenModel RE Gen.C04

noncomputable section

/-- the standard symplectic matrix `J = [[0, I₃], [−I₃, 0]]`, ordering (x, y, z, p_x, p_y, p_z) -/
def triJ : ℕ → ℕ → ℝ
  | 0, 3 => 1 | 1, 4 => 1 | 2, 5 => 1 | 3, 0 => -1 | 4, 1 => -1 | 5, 2 => -1 | _, _ => 0
/-- `Hess(H₂)` for `H₂ = ½(p_x²+p_y²+p_z²) + y p_x − x p_y + ⅛x² − a x y − ⅝y² + ½z²`, ordering (x, y, z, p_x, p_y, p_z) -/
def triS (a : ℝ) : ℕ → ℕ → ℝ
  | 0, 0 => 1 / 4 | 0, 1 => -a | 1, 0 => -a | 1, 1 => -(5 / 4) | 2, 2 => 1
  | 3, 3 => 1 | 4, 4 => 1 | 5, 5 => 1 | 1, 3 => 1 | 3, 1 => 1 | 0, 4 => -1 | 4, 0 => -1 | _, _ => 0
/-- Hessian of the normal form `ω₁/2(q₁²+p₁²) + ω₂/2(q₂²+p₂²) + ½(q₃²+p₃²)` -/
def triT (o1 o2 : ℝ) : ℕ → ℕ → ℝ
  | 0, 0 => o1 | 1, 1 => o2 | 2, 2 => 1 | 3, 3 => o1 | 4, 4 => o2 | 5, 5 => 1 | _, _ => 0

/-- the quadratic Hamiltonian at a triangular point in local coordinates -/
def triH2 (a : ℝ) (v : ℕ → ℝ) : ℝ :=
  1 / 2 * (v 3 ^ 2 + v 4 ^ 2 + v 5 ^ 2) + v 1 * v 3 - v 0 * v 4 + 1 / 8 * v 0 ^ 2 - a * v 0 * v 1 - 5 / 8 * v 1 ^ 2 + 1 / 2 * v 2 ^ 2

/-- `triS a` is the Hessian of `triH2 a`: `H₂(v) = ½ vᵀSv`, and `S` is symmetric -/
theorem triS_is_hessian (a : ℝ) (v : ℕ → ℝ) :
    triH2 a v = 1 / 2 * ∑ k ∈ Finset.range 6, ∑ l ∈ Finset.range 6, v k * triS a k l * v l := by
  simp [Finset.sum_range_succ, triS, triH2]; ring

theorem triS_symm (a : ℝ) (k l : ℕ) (hk : k < 6) (hl : l < 6) : triS a k l = triS a l k := by
  interval_cases k <;> interval_cases l <;> rfl

theorem sumJ_expand (C : ℕ → ℕ → ℝ) (i j : ℕ) :
    (∑ k ∈ Finset.range 6, ∑ l ∈ Finset.range 6, C k i * triJ k l * C l j) =
      (C 0 i * C 3 j - C 3 i * C 0 j) + (C 1 i * C 4 j - C 4 i * C 1 j) + (C 2 i * C 5 j - C 5 i * C 2 j) := by
  simp [Finset.sum_range_succ, triJ]; ring

theorem sumS_expand (a : ℝ) (C : ℕ → ℕ → ℝ) (i j : ℕ) :
    (∑ k ∈ Finset.range 6, ∑ l ∈ Finset.range 6, C k i * triS a k l * C l j) =
      C 3 i * C 3 j + C 4 i * C 4 j + C 5 i * C 5 j + (C 1 i * C 3 j + C 3 i * C 1 j) - (C 0 i * C 4 j + C 4 i * C 0 j) +
      1 / 4 * (C 0 i * C 0 j) - a * (C 0 i * C 1 j + C 1 i * C 0 j) - 5 / 4 * (C 1 i * C 1 j) + C 2 i * C 2 j := by
  simp [Finset.sum_range_succ, triS]; ring

/-- numerators of the triangular normal-form matrix: `C = Ĉ · diag(1/s₁, 1/s₂, 1/(w s₃), 1/s₁, 1/s₂, w/s₃)`, `w = √ω_z` -/
def triChat (a o1 o2 : ℝ) : ℕ → ℕ → ℝ
  | 0, 0 => a | 1, 0 => -o1 ^ 2 - 3 / 4 | 3, 0 => -o1 ^ 2 + 3 / 4 | 4, 0 => a
  | 0, 1 => a | 1, 1 => -o2 ^ 2 - 3 / 4 | 3, 1 => -o2 ^ 2 + 3 / 4 | 4, 1 => a
  | 2, 2 => 1
  | 0, 3 => 2 * o1 | 3, 3 => a * o1 | 4, 3 => -o1 ^ 3 + 5 / 4 * o1
  | 0, 4 => 2 * o2 | 3, 4 => a * o2 | 4, 4 => -o2 ^ 3 + 5 / 4 * o2
  | 5, 5 => 1
  | _, _ => 0
noncomputable def triDcol (s1 s2 s3 w : ℝ) : ℕ → ℝ
  | 0 => 1 / s1 | 1 => 1 / s2 | 2 => 1 / w * (1 / s3) | 3 => 1 / s1 | 4 => 1 / s2 | _ => w * (1 / s3)

/-- the traced `_build_normal_form` matrix of a triangular point (variables 0 a, 1 ω₁, 2 ω₂, 3 ω_z, 4 s₁, 5 s₂, 6 s₃) has exactly
this shape -/
theorem triC_factor (ρ : ℕ → ℝ) (i j : ℕ) (hi : i < 6) (hj : j < 6) :
    eval ρ (triC (6 * i + j)) =
      triChat (ρ 0) (ρ 1) (ρ 2) i j * triDcol (ρ 4) (ρ 5) (ρ 6) (Real.sqrt (ρ 3)) j := by
  interval_cases i <;> interval_cases j <;> simp only [triC, eval, triChat, triDcol, Nat.reduceMul, Nat.reduceAdd] <;> ring

/-- `d(ω) = ω(2ω⁴ + ½ω² − ¾)` -/
def triD (o : ℝ) : ℝ := o * (2 * o ^ 4 + 1 / 2 * o ^ 2 - 3 / 4)

/-- the traced squared scale factors -/
theorem tri_scale_factors (ρ : ℕ → ℝ) : eval ρ triS1sq = triD (ρ 1) ∧ eval ρ triS2sq = triD (ρ 2) := by
  constructor <;> simp only [triS1sq, triS2sq, eval, triD] <;> ring

/-- `ĈᵀJĈ` entry (i,j) and `ĈᵀSĈ` entry (i,j) -/
def triSympl (a o1 o2 : ℝ) (i j : ℕ) : ℝ :=
  (triChat a o1 o2 0 i * triChat a o1 o2 3 j - triChat a o1 o2 3 i * triChat a o1 o2 0 j) +
  (triChat a o1 o2 1 i * triChat a o1 o2 4 j - triChat a o1 o2 4 i * triChat a o1 o2 1 j) +
  (triChat a o1 o2 2 i * triChat a o1 o2 5 j - triChat a o1 o2 5 i * triChat a o1 o2 2 j)
def triQuad (a o1 o2 : ℝ) (i j : ℕ) : ℝ :=
  triChat a o1 o2 3 i * triChat a o1 o2 3 j + triChat a o1 o2 4 i * triChat a o1 o2 4 j + triChat a o1 o2 5 i * triChat a o1 o2 5 j +
  (triChat a o1 o2 1 i * triChat a o1 o2 3 j + triChat a o1 o2 3 i * triChat a o1 o2 1 j) -
  (triChat a o1 o2 0 i * triChat a o1 o2 4 j + triChat a o1 o2 4 i * triChat a o1 o2 0 j) +
  1 / 4 * (triChat a o1 o2 0 i * triChat a o1 o2 0 j) -
  a * (triChat a o1 o2 0 i * triChat a o1 o2 1 j + triChat a o1 o2 1 i * triChat a o1 o2 0 j) -
  5 / 4 * (triChat a o1 o2 1 i * triChat a o1 o2 1 j) + triChat a o1 o2 2 i * triChat a o1 o2 2 j
def triSymplTarget (o1 o2 : ℝ) : ℕ → ℕ → ℝ
  | 0, 3 => triD o1 | 3, 0 => -triD o1 | 1, 4 => triD o2 | 4, 1 => -triD o2 | 2, 5 => 1 | 5, 2 => -1 | _, _ => 0
def triQuadTarget (o1 o2 : ℝ) : ℕ → ℕ → ℝ
  | 0, 0 => o1 * triD o1 | 1, 1 => o2 * triD o2 | 2, 2 => 1 | 3, 3 => o1 * triD o1 | 4, 4 => o2 * triD o2 | 5, 5 => 1 | _, _ => 0
theorem triSympl_0_0 (a o1 o2 : ℝ) (h1 : o1 ^ 2 + o2 ^ 2 = 1) (h2 : o1 ^ 2 * o2 ^ 2 = 27 / 16 - a ^ 2) :
    triSympl a o1 o2 0 0 = triSymplTarget o1 o2 0 0 := by
  simp only [triSympl, triSymplTarget, triChat]
  linear_combination (0) * h1 + (0) * h2
theorem triSympl_0_1 (a o1 o2 : ℝ) (h1 : o1 ^ 2 + o2 ^ 2 = 1) (h2 : o1 ^ 2 * o2 ^ 2 = 27 / 16 - a ^ 2) :
    triSympl a o1 o2 0 1 = triSymplTarget o1 o2 0 1 := by
  simp only [triSympl, triSymplTarget, triChat]
  linear_combination (0) * h1 + (0) * h2
theorem triSympl_0_2 (a o1 o2 : ℝ) (h1 : o1 ^ 2 + o2 ^ 2 = 1) (h2 : o1 ^ 2 * o2 ^ 2 = 27 / 16 - a ^ 2) :
    triSympl a o1 o2 0 2 = triSymplTarget o1 o2 0 2 := by
  simp only [triSympl, triSymplTarget, triChat]
  linear_combination (0) * h1 + (0) * h2
theorem triSympl_0_3 (a o1 o2 : ℝ) (h1 : o1 ^ 2 + o2 ^ 2 = 1) (h2 : o1 ^ 2 * o2 ^ 2 = 27 / 16 - a ^ 2) :
    triSympl a o1 o2 0 3 = triSymplTarget o1 o2 0 3 := by
  simp only [triSympl, triSymplTarget, triChat, triD]
  linear_combination (-o1^3) * h1 + (o1) * h2
theorem triSympl_0_4 (a o1 o2 : ℝ) (h1 : o1 ^ 2 + o2 ^ 2 = 1) (h2 : o1 ^ 2 * o2 ^ 2 = 27 / 16 - a ^ 2) :
    triSympl a o1 o2 0 4 = triSymplTarget o1 o2 0 4 := by
  simp only [triSympl, triSymplTarget, triChat]
  linear_combination (3*o2/4) * h1 + (o2) * h2
theorem triSympl_0_5 (a o1 o2 : ℝ) (h1 : o1 ^ 2 + o2 ^ 2 = 1) (h2 : o1 ^ 2 * o2 ^ 2 = 27 / 16 - a ^ 2) :
    triSympl a o1 o2 0 5 = triSymplTarget o1 o2 0 5 := by
  simp only [triSympl, triSymplTarget, triChat]
  linear_combination (0) * h1 + (0) * h2
theorem triSympl_1_0 (a o1 o2 : ℝ) (h1 : o1 ^ 2 + o2 ^ 2 = 1) (h2 : o1 ^ 2 * o2 ^ 2 = 27 / 16 - a ^ 2) :
    triSympl a o1 o2 1 0 = triSymplTarget o1 o2 1 0 := by
  simp only [triSympl, triSymplTarget, triChat]
  linear_combination (0) * h1 + (0) * h2
theorem triSympl_1_1 (a o1 o2 : ℝ) (h1 : o1 ^ 2 + o2 ^ 2 = 1) (h2 : o1 ^ 2 * o2 ^ 2 = 27 / 16 - a ^ 2) :
    triSympl a o1 o2 1 1 = triSymplTarget o1 o2 1 1 := by
  simp only [triSympl, triSymplTarget, triChat]
  linear_combination (0) * h1 + (0) * h2
theorem triSympl_1_2 (a o1 o2 : ℝ) (h1 : o1 ^ 2 + o2 ^ 2 = 1) (h2 : o1 ^ 2 * o2 ^ 2 = 27 / 16 - a ^ 2) :
    triSympl a o1 o2 1 2 = triSymplTarget o1 o2 1 2 := by
  simp only [triSympl, triSymplTarget, triChat]
  linear_combination (0) * h1 + (0) * h2
theorem triSympl_1_3 (a o1 o2 : ℝ) (h1 : o1 ^ 2 + o2 ^ 2 = 1) (h2 : o1 ^ 2 * o2 ^ 2 = 27 / 16 - a ^ 2) :
    triSympl a o1 o2 1 3 = triSymplTarget o1 o2 1 3 := by
  simp only [triSympl, triSymplTarget, triChat]
  linear_combination (3*o1/4) * h1 + (o1) * h2
theorem triSympl_1_4 (a o1 o2 : ℝ) (h1 : o1 ^ 2 + o2 ^ 2 = 1) (h2 : o1 ^ 2 * o2 ^ 2 = 27 / 16 - a ^ 2) :
    triSympl a o1 o2 1 4 = triSymplTarget o1 o2 1 4 := by
  simp only [triSympl, triSymplTarget, triChat, triD]
  linear_combination (-o2^3) * h1 + (o2) * h2
theorem triSympl_1_5 (a o1 o2 : ℝ) (h1 : o1 ^ 2 + o2 ^ 2 = 1) (h2 : o1 ^ 2 * o2 ^ 2 = 27 / 16 - a ^ 2) :
    triSympl a o1 o2 1 5 = triSymplTarget o1 o2 1 5 := by
  simp only [triSympl, triSymplTarget, triChat]
  linear_combination (0) * h1 + (0) * h2
theorem triSympl_2_0 (a o1 o2 : ℝ) (h1 : o1 ^ 2 + o2 ^ 2 = 1) (h2 : o1 ^ 2 * o2 ^ 2 = 27 / 16 - a ^ 2) :
    triSympl a o1 o2 2 0 = triSymplTarget o1 o2 2 0 := by
  simp only [triSympl, triSymplTarget, triChat]
  linear_combination (0) * h1 + (0) * h2
theorem triSympl_2_1 (a o1 o2 : ℝ) (h1 : o1 ^ 2 + o2 ^ 2 = 1) (h2 : o1 ^ 2 * o2 ^ 2 = 27 / 16 - a ^ 2) :
    triSympl a o1 o2 2 1 = triSymplTarget o1 o2 2 1 := by
  simp only [triSympl, triSymplTarget, triChat]
  linear_combination (0) * h1 + (0) * h2
theorem triSympl_2_2 (a o1 o2 : ℝ) (h1 : o1 ^ 2 + o2 ^ 2 = 1) (h2 : o1 ^ 2 * o2 ^ 2 = 27 / 16 - a ^ 2) :
    triSympl a o1 o2 2 2 = triSymplTarget o1 o2 2 2 := by
  simp only [triSympl, triSymplTarget, triChat]
  linear_combination (0) * h1 + (0) * h2
theorem triSympl_2_3 (a o1 o2 : ℝ) (h1 : o1 ^ 2 + o2 ^ 2 = 1) (h2 : o1 ^ 2 * o2 ^ 2 = 27 / 16 - a ^ 2) :
    triSympl a o1 o2 2 3 = triSymplTarget o1 o2 2 3 := by
  simp only [triSympl, triSymplTarget, triChat]
  linear_combination (0) * h1 + (0) * h2
theorem triSympl_2_4 (a o1 o2 : ℝ) (h1 : o1 ^ 2 + o2 ^ 2 = 1) (h2 : o1 ^ 2 * o2 ^ 2 = 27 / 16 - a ^ 2) :
    triSympl a o1 o2 2 4 = triSymplTarget o1 o2 2 4 := by
  simp only [triSympl, triSymplTarget, triChat]
  linear_combination (0) * h1 + (0) * h2
theorem triSympl_2_5 (a o1 o2 : ℝ) (h1 : o1 ^ 2 + o2 ^ 2 = 1) (h2 : o1 ^ 2 * o2 ^ 2 = 27 / 16 - a ^ 2) :
    triSympl a o1 o2 2 5 = triSymplTarget o1 o2 2 5 := by
  simp only [triSympl, triSymplTarget, triChat]
  linear_combination (0) * h1 + (0) * h2
theorem triSympl_3_0 (a o1 o2 : ℝ) (h1 : o1 ^ 2 + o2 ^ 2 = 1) (h2 : o1 ^ 2 * o2 ^ 2 = 27 / 16 - a ^ 2) :
    triSympl a o1 o2 3 0 = triSymplTarget o1 o2 3 0 := by
  simp only [triSympl, triSymplTarget, triChat, triD]
  linear_combination (o1^3) * h1 + (-o1) * h2
theorem triSympl_3_1 (a o1 o2 : ℝ) (h1 : o1 ^ 2 + o2 ^ 2 = 1) (h2 : o1 ^ 2 * o2 ^ 2 = 27 / 16 - a ^ 2) :
    triSympl a o1 o2 3 1 = triSymplTarget o1 o2 3 1 := by
  simp only [triSympl, triSymplTarget, triChat]
  linear_combination (-3*o1/4) * h1 + (-o1) * h2
theorem triSympl_3_2 (a o1 o2 : ℝ) (h1 : o1 ^ 2 + o2 ^ 2 = 1) (h2 : o1 ^ 2 * o2 ^ 2 = 27 / 16 - a ^ 2) :
    triSympl a o1 o2 3 2 = triSymplTarget o1 o2 3 2 := by
  simp only [triSympl, triSymplTarget, triChat]
  linear_combination (0) * h1 + (0) * h2
theorem triSympl_3_3 (a o1 o2 : ℝ) (h1 : o1 ^ 2 + o2 ^ 2 = 1) (h2 : o1 ^ 2 * o2 ^ 2 = 27 / 16 - a ^ 2) :
    triSympl a o1 o2 3 3 = triSymplTarget o1 o2 3 3 := by
  simp only [triSympl, triSymplTarget, triChat]
  linear_combination (0) * h1 + (0) * h2
theorem triSympl_3_4 (a o1 o2 : ℝ) (h1 : o1 ^ 2 + o2 ^ 2 = 1) (h2 : o1 ^ 2 * o2 ^ 2 = 27 / 16 - a ^ 2) :
    triSympl a o1 o2 3 4 = triSymplTarget o1 o2 3 4 := by
  simp only [triSympl, triSymplTarget, triChat]
  linear_combination (0) * h1 + (0) * h2
theorem triSympl_3_5 (a o1 o2 : ℝ) (h1 : o1 ^ 2 + o2 ^ 2 = 1) (h2 : o1 ^ 2 * o2 ^ 2 = 27 / 16 - a ^ 2) :
    triSympl a o1 o2 3 5 = triSymplTarget o1 o2 3 5 := by
  simp only [triSympl, triSymplTarget, triChat]
  linear_combination (0) * h1 + (0) * h2
theorem triSympl_4_0 (a o1 o2 : ℝ) (h1 : o1 ^ 2 + o2 ^ 2 = 1) (h2 : o1 ^ 2 * o2 ^ 2 = 27 / 16 - a ^ 2) :
    triSympl a o1 o2 4 0 = triSymplTarget o1 o2 4 0 := by
  simp only [triSympl, triSymplTarget, triChat]
  linear_combination (-3*o2/4) * h1 + (-o2) * h2
theorem triSympl_4_1 (a o1 o2 : ℝ) (h1 : o1 ^ 2 + o2 ^ 2 = 1) (h2 : o1 ^ 2 * o2 ^ 2 = 27 / 16 - a ^ 2) :
    triSympl a o1 o2 4 1 = triSymplTarget o1 o2 4 1 := by
  simp only [triSympl, triSymplTarget, triChat, triD]
  linear_combination (o2^3) * h1 + (-o2) * h2
theorem triSympl_4_2 (a o1 o2 : ℝ) (h1 : o1 ^ 2 + o2 ^ 2 = 1) (h2 : o1 ^ 2 * o2 ^ 2 = 27 / 16 - a ^ 2) :
    triSympl a o1 o2 4 2 = triSymplTarget o1 o2 4 2 := by
  simp only [triSympl, triSymplTarget, triChat]
  linear_combination (0) * h1 + (0) * h2
theorem triSympl_4_3 (a o1 o2 : ℝ) (h1 : o1 ^ 2 + o2 ^ 2 = 1) (h2 : o1 ^ 2 * o2 ^ 2 = 27 / 16 - a ^ 2) :
    triSympl a o1 o2 4 3 = triSymplTarget o1 o2 4 3 := by
  simp only [triSympl, triSymplTarget, triChat]
  linear_combination (0) * h1 + (0) * h2
theorem triSympl_4_4 (a o1 o2 : ℝ) (h1 : o1 ^ 2 + o2 ^ 2 = 1) (h2 : o1 ^ 2 * o2 ^ 2 = 27 / 16 - a ^ 2) :
    triSympl a o1 o2 4 4 = triSymplTarget o1 o2 4 4 := by
  simp only [triSympl, triSymplTarget, triChat]
  linear_combination (0) * h1 + (0) * h2
theorem triSympl_4_5 (a o1 o2 : ℝ) (h1 : o1 ^ 2 + o2 ^ 2 = 1) (h2 : o1 ^ 2 * o2 ^ 2 = 27 / 16 - a ^ 2) :
    triSympl a o1 o2 4 5 = triSymplTarget o1 o2 4 5 := by
  simp only [triSympl, triSymplTarget, triChat]
  linear_combination (0) * h1 + (0) * h2
theorem triSympl_5_0 (a o1 o2 : ℝ) (h1 : o1 ^ 2 + o2 ^ 2 = 1) (h2 : o1 ^ 2 * o2 ^ 2 = 27 / 16 - a ^ 2) :
    triSympl a o1 o2 5 0 = triSymplTarget o1 o2 5 0 := by
  simp only [triSympl, triSymplTarget, triChat]
  linear_combination (0) * h1 + (0) * h2
theorem triSympl_5_1 (a o1 o2 : ℝ) (h1 : o1 ^ 2 + o2 ^ 2 = 1) (h2 : o1 ^ 2 * o2 ^ 2 = 27 / 16 - a ^ 2) :
    triSympl a o1 o2 5 1 = triSymplTarget o1 o2 5 1 := by
  simp only [triSympl, triSymplTarget, triChat]
  linear_combination (0) * h1 + (0) * h2
theorem triSympl_5_2 (a o1 o2 : ℝ) (h1 : o1 ^ 2 + o2 ^ 2 = 1) (h2 : o1 ^ 2 * o2 ^ 2 = 27 / 16 - a ^ 2) :
    triSympl a o1 o2 5 2 = triSymplTarget o1 o2 5 2 := by
  simp only [triSympl, triSymplTarget, triChat]
  linear_combination (0) * h1 + (0) * h2
theorem triSympl_5_3 (a o1 o2 : ℝ) (h1 : o1 ^ 2 + o2 ^ 2 = 1) (h2 : o1 ^ 2 * o2 ^ 2 = 27 / 16 - a ^ 2) :
    triSympl a o1 o2 5 3 = triSymplTarget o1 o2 5 3 := by
  simp only [triSympl, triSymplTarget, triChat]
  linear_combination (0) * h1 + (0) * h2
theorem triSympl_5_4 (a o1 o2 : ℝ) (h1 : o1 ^ 2 + o2 ^ 2 = 1) (h2 : o1 ^ 2 * o2 ^ 2 = 27 / 16 - a ^ 2) :
    triSympl a o1 o2 5 4 = triSymplTarget o1 o2 5 4 := by
  simp only [triSympl, triSymplTarget, triChat]
  linear_combination (0) * h1 + (0) * h2
theorem triSympl_5_5 (a o1 o2 : ℝ) (h1 : o1 ^ 2 + o2 ^ 2 = 1) (h2 : o1 ^ 2 * o2 ^ 2 = 27 / 16 - a ^ 2) :
    triSympl a o1 o2 5 5 = triSymplTarget o1 o2 5 5 := by
  simp only [triSympl, triSymplTarget, triChat]
  linear_combination (0) * h1 + (0) * h2
theorem triQuad_0_0 (a o1 o2 : ℝ) (h1 : o1 ^ 2 + o2 ^ 2 = 1) (h2 : o1 ^ 2 * o2 ^ 2 = 27 / 16 - a ^ 2) :
    triQuad a o1 o2 0 0 = triQuadTarget o1 o2 0 0 := by
  simp only [triQuad, triQuadTarget, triChat, triD]
  linear_combination (-2*o1^4 - 3*o1^2/4) * h1 + (2*o1^2 + 3/4) * h2
theorem triQuad_0_1 (a o1 o2 : ℝ) (h1 : o1 ^ 2 + o2 ^ 2 = 1) (h2 : o1 ^ 2 * o2 ^ 2 = 27 / 16 - a ^ 2) :
    triQuad a o1 o2 0 1 = triQuadTarget o1 o2 0 1 := by
  simp only [triQuad, triQuadTarget, triChat]
  linear_combination (a^2 - 27/16) * h1 + (7/4) * h2
theorem triQuad_0_2 (a o1 o2 : ℝ) (h1 : o1 ^ 2 + o2 ^ 2 = 1) (h2 : o1 ^ 2 * o2 ^ 2 = 27 / 16 - a ^ 2) :
    triQuad a o1 o2 0 2 = triQuadTarget o1 o2 0 2 := by
  simp only [triQuad, triQuadTarget, triChat]
  linear_combination (0) * h1 + (0) * h2
theorem triQuad_0_3 (a o1 o2 : ℝ) (h1 : o1 ^ 2 + o2 ^ 2 = 1) (h2 : o1 ^ 2 * o2 ^ 2 = 27 / 16 - a ^ 2) :
    triQuad a o1 o2 0 3 = triQuadTarget o1 o2 0 3 := by
  simp only [triQuad, triQuadTarget, triChat]
  linear_combination (0) * h1 + (0) * h2
theorem triQuad_0_4 (a o1 o2 : ℝ) (h1 : o1 ^ 2 + o2 ^ 2 = 1) (h2 : o1 ^ 2 * o2 ^ 2 = 27 / 16 - a ^ 2) :
    triQuad a o1 o2 0 4 = triQuadTarget o1 o2 0 4 := by
  simp only [triQuad, triQuadTarget, triChat]
  linear_combination (0) * h1 + (0) * h2
theorem triQuad_0_5 (a o1 o2 : ℝ) (h1 : o1 ^ 2 + o2 ^ 2 = 1) (h2 : o1 ^ 2 * o2 ^ 2 = 27 / 16 - a ^ 2) :
    triQuad a o1 o2 0 5 = triQuadTarget o1 o2 0 5 := by
  simp only [triQuad, triQuadTarget, triChat]
  linear_combination (0) * h1 + (0) * h2
theorem triQuad_1_0 (a o1 o2 : ℝ) (h1 : o1 ^ 2 + o2 ^ 2 = 1) (h2 : o1 ^ 2 * o2 ^ 2 = 27 / 16 - a ^ 2) :
    triQuad a o1 o2 1 0 = triQuadTarget o1 o2 1 0 := by
  simp only [triQuad, triQuadTarget, triChat]
  linear_combination (a^2 - 27/16) * h1 + (7/4) * h2
theorem triQuad_1_1 (a o1 o2 : ℝ) (h1 : o1 ^ 2 + o2 ^ 2 = 1) (h2 : o1 ^ 2 * o2 ^ 2 = 27 / 16 - a ^ 2) :
    triQuad a o1 o2 1 1 = triQuadTarget o1 o2 1 1 := by
  simp only [triQuad, triQuadTarget, triChat, triD]
  linear_combination (2*a^2 + 2*o1^2*o2^2 - 2*o2^4 - 3*o2^2/4 - 27/8) * h1 + (11/4 - 2*o1^2) * h2
theorem triQuad_1_2 (a o1 o2 : ℝ) (h1 : o1 ^ 2 + o2 ^ 2 = 1) (h2 : o1 ^ 2 * o2 ^ 2 = 27 / 16 - a ^ 2) :
    triQuad a o1 o2 1 2 = triQuadTarget o1 o2 1 2 := by
  simp only [triQuad, triQuadTarget, triChat]
  linear_combination (0) * h1 + (0) * h2
theorem triQuad_1_3 (a o1 o2 : ℝ) (h1 : o1 ^ 2 + o2 ^ 2 = 1) (h2 : o1 ^ 2 * o2 ^ 2 = 27 / 16 - a ^ 2) :
    triQuad a o1 o2 1 3 = triQuadTarget o1 o2 1 3 := by
  simp only [triQuad, triQuadTarget, triChat]
  linear_combination (0) * h1 + (0) * h2
theorem triQuad_1_4 (a o1 o2 : ℝ) (h1 : o1 ^ 2 + o2 ^ 2 = 1) (h2 : o1 ^ 2 * o2 ^ 2 = 27 / 16 - a ^ 2) :
    triQuad a o1 o2 1 4 = triQuadTarget o1 o2 1 4 := by
  simp only [triQuad, triQuadTarget, triChat]
  linear_combination (0) * h1 + (0) * h2
theorem triQuad_1_5 (a o1 o2 : ℝ) (h1 : o1 ^ 2 + o2 ^ 2 = 1) (h2 : o1 ^ 2 * o2 ^ 2 = 27 / 16 - a ^ 2) :
    triQuad a o1 o2 1 5 = triQuadTarget o1 o2 1 5 := by
  simp only [triQuad, triQuadTarget, triChat]
  linear_combination (0) * h1 + (0) * h2
theorem triQuad_2_0 (a o1 o2 : ℝ) (h1 : o1 ^ 2 + o2 ^ 2 = 1) (h2 : o1 ^ 2 * o2 ^ 2 = 27 / 16 - a ^ 2) :
    triQuad a o1 o2 2 0 = triQuadTarget o1 o2 2 0 := by
  simp only [triQuad, triQuadTarget, triChat]
  linear_combination (0) * h1 + (0) * h2
theorem triQuad_2_1 (a o1 o2 : ℝ) (h1 : o1 ^ 2 + o2 ^ 2 = 1) (h2 : o1 ^ 2 * o2 ^ 2 = 27 / 16 - a ^ 2) :
    triQuad a o1 o2 2 1 = triQuadTarget o1 o2 2 1 := by
  simp only [triQuad, triQuadTarget, triChat]
  linear_combination (0) * h1 + (0) * h2
theorem triQuad_2_2 (a o1 o2 : ℝ) (h1 : o1 ^ 2 + o2 ^ 2 = 1) (h2 : o1 ^ 2 * o2 ^ 2 = 27 / 16 - a ^ 2) :
    triQuad a o1 o2 2 2 = triQuadTarget o1 o2 2 2 := by
  simp only [triQuad, triQuadTarget, triChat]
  linear_combination (0) * h1 + (0) * h2
theorem triQuad_2_3 (a o1 o2 : ℝ) (h1 : o1 ^ 2 + o2 ^ 2 = 1) (h2 : o1 ^ 2 * o2 ^ 2 = 27 / 16 - a ^ 2) :
    triQuad a o1 o2 2 3 = triQuadTarget o1 o2 2 3 := by
  simp only [triQuad, triQuadTarget, triChat]
  linear_combination (0) * h1 + (0) * h2
theorem triQuad_2_4 (a o1 o2 : ℝ) (h1 : o1 ^ 2 + o2 ^ 2 = 1) (h2 : o1 ^ 2 * o2 ^ 2 = 27 / 16 - a ^ 2) :
    triQuad a o1 o2 2 4 = triQuadTarget o1 o2 2 4 := by
  simp only [triQuad, triQuadTarget, triChat]
  linear_combination (0) * h1 + (0) * h2
theorem triQuad_2_5 (a o1 o2 : ℝ) (h1 : o1 ^ 2 + o2 ^ 2 = 1) (h2 : o1 ^ 2 * o2 ^ 2 = 27 / 16 - a ^ 2) :
    triQuad a o1 o2 2 5 = triQuadTarget o1 o2 2 5 := by
  simp only [triQuad, triQuadTarget, triChat]
  linear_combination (0) * h1 + (0) * h2
theorem triQuad_3_0 (a o1 o2 : ℝ) (h1 : o1 ^ 2 + o2 ^ 2 = 1) (h2 : o1 ^ 2 * o2 ^ 2 = 27 / 16 - a ^ 2) :
    triQuad a o1 o2 3 0 = triQuadTarget o1 o2 3 0 := by
  simp only [triQuad, triQuadTarget, triChat]
  linear_combination (0) * h1 + (0) * h2
theorem triQuad_3_1 (a o1 o2 : ℝ) (h1 : o1 ^ 2 + o2 ^ 2 = 1) (h2 : o1 ^ 2 * o2 ^ 2 = 27 / 16 - a ^ 2) :
    triQuad a o1 o2 3 1 = triQuadTarget o1 o2 3 1 := by
  simp only [triQuad, triQuadTarget, triChat]
  linear_combination (0) * h1 + (0) * h2
theorem triQuad_3_2 (a o1 o2 : ℝ) (h1 : o1 ^ 2 + o2 ^ 2 = 1) (h2 : o1 ^ 2 * o2 ^ 2 = 27 / 16 - a ^ 2) :
    triQuad a o1 o2 3 2 = triQuadTarget o1 o2 3 2 := by
  simp only [triQuad, triQuadTarget, triChat]
  linear_combination (0) * h1 + (0) * h2
theorem triQuad_3_3 (a o1 o2 : ℝ) (h1 : o1 ^ 2 + o2 ^ 2 = 1) (h2 : o1 ^ 2 * o2 ^ 2 = 27 / 16 - a ^ 2) :
    triQuad a o1 o2 3 3 = triQuadTarget o1 o2 3 3 := by
  simp only [triQuad, triQuadTarget, triChat, triD]
  linear_combination (-o1^4) * h1 + (o1^2) * h2
theorem triQuad_3_4 (a o1 o2 : ℝ) (h1 : o1 ^ 2 + o2 ^ 2 = 1) (h2 : o1 ^ 2 * o2 ^ 2 = 27 / 16 - a ^ 2) :
    triQuad a o1 o2 3 4 = triQuadTarget o1 o2 3 4 := by
  simp only [triQuad, triQuadTarget, triChat]
  linear_combination (3*o1*o2/4) * h1 + (o1*o2) * h2
theorem triQuad_3_5 (a o1 o2 : ℝ) (h1 : o1 ^ 2 + o2 ^ 2 = 1) (h2 : o1 ^ 2 * o2 ^ 2 = 27 / 16 - a ^ 2) :
    triQuad a o1 o2 3 5 = triQuadTarget o1 o2 3 5 := by
  simp only [triQuad, triQuadTarget, triChat]
  linear_combination (0) * h1 + (0) * h2
theorem triQuad_4_0 (a o1 o2 : ℝ) (h1 : o1 ^ 2 + o2 ^ 2 = 1) (h2 : o1 ^ 2 * o2 ^ 2 = 27 / 16 - a ^ 2) :
    triQuad a o1 o2 4 0 = triQuadTarget o1 o2 4 0 := by
  simp only [triQuad, triQuadTarget, triChat]
  linear_combination (0) * h1 + (0) * h2
theorem triQuad_4_1 (a o1 o2 : ℝ) (h1 : o1 ^ 2 + o2 ^ 2 = 1) (h2 : o1 ^ 2 * o2 ^ 2 = 27 / 16 - a ^ 2) :
    triQuad a o1 o2 4 1 = triQuadTarget o1 o2 4 1 := by
  simp only [triQuad, triQuadTarget, triChat]
  linear_combination (0) * h1 + (0) * h2
theorem triQuad_4_2 (a o1 o2 : ℝ) (h1 : o1 ^ 2 + o2 ^ 2 = 1) (h2 : o1 ^ 2 * o2 ^ 2 = 27 / 16 - a ^ 2) :
    triQuad a o1 o2 4 2 = triQuadTarget o1 o2 4 2 := by
  simp only [triQuad, triQuadTarget, triChat]
  linear_combination (0) * h1 + (0) * h2
theorem triQuad_4_3 (a o1 o2 : ℝ) (h1 : o1 ^ 2 + o2 ^ 2 = 1) (h2 : o1 ^ 2 * o2 ^ 2 = 27 / 16 - a ^ 2) :
    triQuad a o1 o2 4 3 = triQuadTarget o1 o2 4 3 := by
  simp only [triQuad, triQuadTarget, triChat]
  linear_combination (3*o1*o2/4) * h1 + (o1*o2) * h2
theorem triQuad_4_4 (a o1 o2 : ℝ) (h1 : o1 ^ 2 + o2 ^ 2 = 1) (h2 : o1 ^ 2 * o2 ^ 2 = 27 / 16 - a ^ 2) :
    triQuad a o1 o2 4 4 = triQuadTarget o1 o2 4 4 := by
  simp only [triQuad, triQuadTarget, triChat, triD]
  linear_combination (a^2 + o1^2*o2^2 - o2^4 - 27/16) * h1 + (1 - o1^2) * h2
theorem triQuad_4_5 (a o1 o2 : ℝ) (h1 : o1 ^ 2 + o2 ^ 2 = 1) (h2 : o1 ^ 2 * o2 ^ 2 = 27 / 16 - a ^ 2) :
    triQuad a o1 o2 4 5 = triQuadTarget o1 o2 4 5 := by
  simp only [triQuad, triQuadTarget, triChat]
  linear_combination (0) * h1 + (0) * h2
theorem triQuad_5_0 (a o1 o2 : ℝ) (h1 : o1 ^ 2 + o2 ^ 2 = 1) (h2 : o1 ^ 2 * o2 ^ 2 = 27 / 16 - a ^ 2) :
    triQuad a o1 o2 5 0 = triQuadTarget o1 o2 5 0 := by
  simp only [triQuad, triQuadTarget, triChat]
  linear_combination (0) * h1 + (0) * h2
theorem triQuad_5_1 (a o1 o2 : ℝ) (h1 : o1 ^ 2 + o2 ^ 2 = 1) (h2 : o1 ^ 2 * o2 ^ 2 = 27 / 16 - a ^ 2) :
    triQuad a o1 o2 5 1 = triQuadTarget o1 o2 5 1 := by
  simp only [triQuad, triQuadTarget, triChat]
  linear_combination (0) * h1 + (0) * h2
theorem triQuad_5_2 (a o1 o2 : ℝ) (h1 : o1 ^ 2 + o2 ^ 2 = 1) (h2 : o1 ^ 2 * o2 ^ 2 = 27 / 16 - a ^ 2) :
    triQuad a o1 o2 5 2 = triQuadTarget o1 o2 5 2 := by
  simp only [triQuad, triQuadTarget, triChat]
  linear_combination (0) * h1 + (0) * h2
theorem triQuad_5_3 (a o1 o2 : ℝ) (h1 : o1 ^ 2 + o2 ^ 2 = 1) (h2 : o1 ^ 2 * o2 ^ 2 = 27 / 16 - a ^ 2) :
    triQuad a o1 o2 5 3 = triQuadTarget o1 o2 5 3 := by
  simp only [triQuad, triQuadTarget, triChat]
  linear_combination (0) * h1 + (0) * h2
theorem triQuad_5_4 (a o1 o2 : ℝ) (h1 : o1 ^ 2 + o2 ^ 2 = 1) (h2 : o1 ^ 2 * o2 ^ 2 = 27 / 16 - a ^ 2) :
    triQuad a o1 o2 5 4 = triQuadTarget o1 o2 5 4 := by
  simp only [triQuad, triQuadTarget, triChat]
  linear_combination (0) * h1 + (0) * h2
theorem triQuad_5_5 (a o1 o2 : ℝ) (h1 : o1 ^ 2 + o2 ^ 2 = 1) (h2 : o1 ^ 2 * o2 ^ 2 = 27 / 16 - a ^ 2) :
    triQuad a o1 o2 5 5 = triQuadTarget o1 o2 5 5 := by
  simp only [triQuad, triQuadTarget, triChat]
  linear_combination (0) * h1 + (0) * h2

/-- **Ĉ is symplectic up to the column scalings and diagonalises H₂** (all 36 + 36 entries), for all real `a, ω₁, ω₂` satisfying
the two Vieta relations — i.e. `ω₁²`, `ω₂²` are the two roots of `t² − t + 27/16 − a² = 0`. -/
theorem triChat_symplectic_and_diagonalising (a o1 o2 : ℝ) (h1 : o1 ^ 2 + o2 ^ 2 = 1) (h2 : o1 ^ 2 * o2 ^ 2 = 27 / 16 - a ^ 2)
    (i j : ℕ) (hi : i < 6) (hj : j < 6) :
    triSympl a o1 o2 i j = triSymplTarget o1 o2 i j ∧ triQuad a o1 o2 i j = triQuadTarget o1 o2 i j := by
  constructor
  · interval_cases i <;> interval_cases j <;>
      first
        | exact triSympl_0_0 a o1 o2 h1 h2
        | exact triSympl_0_1 a o1 o2 h1 h2
        | exact triSympl_0_2 a o1 o2 h1 h2
        | exact triSympl_0_3 a o1 o2 h1 h2
        | exact triSympl_0_4 a o1 o2 h1 h2
        | exact triSympl_0_5 a o1 o2 h1 h2
        | exact triSympl_1_0 a o1 o2 h1 h2
        | exact triSympl_1_1 a o1 o2 h1 h2
        | exact triSympl_1_2 a o1 o2 h1 h2
        | exact triSympl_1_3 a o1 o2 h1 h2
        | exact triSympl_1_4 a o1 o2 h1 h2
        | exact triSympl_1_5 a o1 o2 h1 h2
        | exact triSympl_2_0 a o1 o2 h1 h2
        | exact triSympl_2_1 a o1 o2 h1 h2
        | exact triSympl_2_2 a o1 o2 h1 h2
        | exact triSympl_2_3 a o1 o2 h1 h2
        | exact triSympl_2_4 a o1 o2 h1 h2
        | exact triSympl_2_5 a o1 o2 h1 h2
        | exact triSympl_3_0 a o1 o2 h1 h2
        | exact triSympl_3_1 a o1 o2 h1 h2
        | exact triSympl_3_2 a o1 o2 h1 h2
        | exact triSympl_3_3 a o1 o2 h1 h2
        | exact triSympl_3_4 a o1 o2 h1 h2
        | exact triSympl_3_5 a o1 o2 h1 h2
        | exact triSympl_4_0 a o1 o2 h1 h2
        | exact triSympl_4_1 a o1 o2 h1 h2
        | exact triSympl_4_2 a o1 o2 h1 h2
        | exact triSympl_4_3 a o1 o2 h1 h2
        | exact triSympl_4_4 a o1 o2 h1 h2
        | exact triSympl_4_5 a o1 o2 h1 h2
        | exact triSympl_5_0 a o1 o2 h1 h2
        | exact triSympl_5_1 a o1 o2 h1 h2
        | exact triSympl_5_2 a o1 o2 h1 h2
        | exact triSympl_5_3 a o1 o2 h1 h2
        | exact triSympl_5_4 a o1 o2 h1 h2
        | exact triSympl_5_5 a o1 o2 h1 h2
  · interval_cases i <;> interval_cases j <;>
      first
        | exact triQuad_0_0 a o1 o2 h1 h2
        | exact triQuad_0_1 a o1 o2 h1 h2
        | exact triQuad_0_2 a o1 o2 h1 h2
        | exact triQuad_0_3 a o1 o2 h1 h2
        | exact triQuad_0_4 a o1 o2 h1 h2
        | exact triQuad_0_5 a o1 o2 h1 h2
        | exact triQuad_1_0 a o1 o2 h1 h2
        | exact triQuad_1_1 a o1 o2 h1 h2
        | exact triQuad_1_2 a o1 o2 h1 h2
        | exact triQuad_1_3 a o1 o2 h1 h2
        | exact triQuad_1_4 a o1 o2 h1 h2
        | exact triQuad_1_5 a o1 o2 h1 h2
        | exact triQuad_2_0 a o1 o2 h1 h2
        | exact triQuad_2_1 a o1 o2 h1 h2
        | exact triQuad_2_2 a o1 o2 h1 h2
        | exact triQuad_2_3 a o1 o2 h1 h2
        | exact triQuad_2_4 a o1 o2 h1 h2
        | exact triQuad_2_5 a o1 o2 h1 h2
        | exact triQuad_3_0 a o1 o2 h1 h2
        | exact triQuad_3_1 a o1 o2 h1 h2
        | exact triQuad_3_2 a o1 o2 h1 h2
        | exact triQuad_3_3 a o1 o2 h1 h2
        | exact triQuad_3_4 a o1 o2 h1 h2
        | exact triQuad_3_5 a o1 o2 h1 h2
        | exact triQuad_4_0 a o1 o2 h1 h2
        | exact triQuad_4_1 a o1 o2 h1 h2
        | exact triQuad_4_2 a o1 o2 h1 h2
        | exact triQuad_4_3 a o1 o2 h1 h2
        | exact triQuad_4_4 a o1 o2 h1 h2
        | exact triQuad_4_5 a o1 o2 h1 h2
        | exact triQuad_5_0 a o1 o2 h1 h2
        | exact triQuad_5_1 a o1 o2 h1 h2
        | exact triQuad_5_2 a o1 o2 h1 h2
        | exact triQuad_5_3 a o1 o2 h1 h2
        | exact triQuad_5_4 a o1 o2 h1 h2
        | exact triQuad_5_5 a o1 o2 h1 h2

end

end HitenModel.Lemmas.C04Tri
