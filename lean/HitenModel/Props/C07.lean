/-
  Props/C07.lean — property C07: the polynomial Hamiltonian is the Taylor expansion of the true CR3BP Hamiltonian in local
  coordinates, and the local→synodic map conjugates the flows.
  `Gen.C07` (regenerated on every run): the local→synodic / synodic→local maps traced for L1..L5 and the CR3BP energy and
  vector field *composed* with them (variables 0..5 = x y z p_x p_y p_z, 6 = γ, 7 = μ); the recurrence coefficients, wiring and
  assembly of the Hamiltonian builders, obtained by executing the current builders on an exact polynomial algebra.
  `Gen.C04` supplies the traced `c_n`.  Measured, not proved: the remainder exponents (harness).
-/
import HitenModel.Gen.C07
import HitenModel.Gen.C04
import HitenModel.Core.Legendre
import HitenModel.Lemmas.REReal
import HitenModel.Lemmas.Legendre
import HitenModel.Lemmas.LegendreUnique
import HitenModel.Lemmas.LegendreLink
import Mathlib.Tactic.FieldSimp
import Mathlib.Tactic.Ring
import Mathlib.Tactic.IntervalCases
import Mathlib.Tactic.Linarith
import Mathlib.Tactic.NormNum

namespace HitenModel.Props.C07
open HitenModel RE Gen.C07

/-! ### sentence 2: the local→synodic transformation conjugates the Hamiltonian flow to the CR3BP flow -/

/-- Hamiltonian vector field of `H = (E∘φ)/γ²` at `ρ`, in the local canonical variables (x,y,z,p_x,p_y,p_z); γ and μ are constants -/
noncomputable def hamVec1 (ρ : ℕ → ℝ) : ℕ → ℝ
  | 0 => eval ρ (D 3 energyLoc1) / ρ 6 ^ 2
  | 1 => eval ρ (D 4 energyLoc1) / ρ 6 ^ 2
  | 2 => eval ρ (D 5 energyLoc1) / ρ 6 ^ 2
  | 3 => -(eval ρ (D 0 energyLoc1)) / ρ 6 ^ 2
  | 4 => -(eval ρ (D 1 energyLoc1)) / ρ 6 ^ 2
  | 5 => -(eval ρ (D 2 energyLoc1)) / ρ 6 ^ 2
  | _ => 0

set_option maxHeartbeats 1600000 in
/-- **local2synodic_conjugates_flows (L1)**: the traced map `φ` pushes the Hamiltonian vector field of `(E∘φ)/γ²` (canonical local
structure) forward to the CR3BP vector field evaluated at `φ(c)`: `Dφ · X_H = f∘φ`, for every local point, every `γ ≠ 0`, every `μ`,
away from the primaries. -/
theorem local2synodic_conjugates_flows_L1 (ρ : ℕ → ℝ) (hg : ρ 6 ≠ 0) (h0 : 0 < eval ρ lq1_0) (h1 : 0 < eval ρ lq1_1)
    (i : ℕ) (hi : i < 6) :
    DT ρ (hamVec1 ρ) (phi1 i) = eval ρ (accelLoc1 i) := by
  have hr0 : Real.sqrt (eval ρ lq1_0) ≠ 0 := (Real.sqrt_pos.mpr h0).ne'
  have hr1 : Real.sqrt (eval ρ lq1_1) ≠ 0 := (Real.sqrt_pos.mpr h1).ne'
  interval_cases i <;>
    simp only [phi1, accelLoc1, energyLoc1, hamVec1, DT, D, eval, if_true, if_false, reduceIte, Nat.reduceEqDiff, Nat.reduceSub] <;>
    (generalize Real.sqrt (eval ρ lq1_0) = r0 at *
     generalize Real.sqrt (eval ρ lq1_1) = r1 at *
     simp only [lq1_0, lq1_1, D, eval, if_true, if_false, reduceIte, Nat.reduceEqDiff, Nat.reduceSub]
     try field_simp
     try ring)

/-- **local_synodic_inverse (L1)**: the traced synodic→local map undoes the traced local→synodic map exactly -/
theorem local_synodic_inverse_L1 (ρ : ℕ → ℝ) (hg : ρ 6 ≠ 0) (i : ℕ) (hi : i < 6) : eval ρ (back1 i) = ρ i := by
  interval_cases i <;> simp only [back1, eval] <;> (try field_simp) <;> (try ring)

/-- Hamiltonian vector field of `H = (E∘φ)/γ²` at `ρ`, in the local canonical variables (x,y,z,p_x,p_y,p_z); γ and μ are constants -/
noncomputable def hamVec2 (ρ : ℕ → ℝ) : ℕ → ℝ
  | 0 => eval ρ (D 3 energyLoc2) / ρ 6 ^ 2
  | 1 => eval ρ (D 4 energyLoc2) / ρ 6 ^ 2
  | 2 => eval ρ (D 5 energyLoc2) / ρ 6 ^ 2
  | 3 => -(eval ρ (D 0 energyLoc2)) / ρ 6 ^ 2
  | 4 => -(eval ρ (D 1 energyLoc2)) / ρ 6 ^ 2
  | 5 => -(eval ρ (D 2 energyLoc2)) / ρ 6 ^ 2
  | _ => 0

set_option maxHeartbeats 1600000 in
/-- **local2synodic_conjugates_flows (L2)**: the traced map `φ` pushes the Hamiltonian vector field of `(E∘φ)/γ²` (canonical local
structure) forward to the CR3BP vector field evaluated at `φ(c)`: `Dφ · X_H = f∘φ`, for every local point, every `γ ≠ 0`, every `μ`,
away from the primaries. -/
theorem local2synodic_conjugates_flows_L2 (ρ : ℕ → ℝ) (hg : ρ 6 ≠ 0) (h0 : 0 < eval ρ lq2_0) (h1 : 0 < eval ρ lq2_1)
    (i : ℕ) (hi : i < 6) :
    DT ρ (hamVec2 ρ) (phi2 i) = eval ρ (accelLoc2 i) := by
  have hr0 : Real.sqrt (eval ρ lq2_0) ≠ 0 := (Real.sqrt_pos.mpr h0).ne'
  have hr1 : Real.sqrt (eval ρ lq2_1) ≠ 0 := (Real.sqrt_pos.mpr h1).ne'
  interval_cases i <;>
    simp only [phi2, accelLoc2, energyLoc2, hamVec2, DT, D, eval, if_true, if_false, reduceIte, Nat.reduceEqDiff, Nat.reduceSub] <;>
    (generalize Real.sqrt (eval ρ lq2_0) = r0 at *
     generalize Real.sqrt (eval ρ lq2_1) = r1 at *
     simp only [lq2_0, lq2_1, D, eval, if_true, if_false, reduceIte, Nat.reduceEqDiff, Nat.reduceSub]
     try field_simp
     try ring)

/-- **local_synodic_inverse (L2)**: the traced synodic→local map undoes the traced local→synodic map exactly -/
theorem local_synodic_inverse_L2 (ρ : ℕ → ℝ) (hg : ρ 6 ≠ 0) (i : ℕ) (hi : i < 6) : eval ρ (back2 i) = ρ i := by
  interval_cases i <;> simp only [back2, eval] <;> (try field_simp) <;> (try ring)

/-- Hamiltonian vector field of `H = (E∘φ)/γ²` at `ρ`, in the local canonical variables (x,y,z,p_x,p_y,p_z); γ and μ are constants -/
noncomputable def hamVec3 (ρ : ℕ → ℝ) : ℕ → ℝ
  | 0 => eval ρ (D 3 energyLoc3) / ρ 6 ^ 2
  | 1 => eval ρ (D 4 energyLoc3) / ρ 6 ^ 2
  | 2 => eval ρ (D 5 energyLoc3) / ρ 6 ^ 2
  | 3 => -(eval ρ (D 0 energyLoc3)) / ρ 6 ^ 2
  | 4 => -(eval ρ (D 1 energyLoc3)) / ρ 6 ^ 2
  | 5 => -(eval ρ (D 2 energyLoc3)) / ρ 6 ^ 2
  | _ => 0

set_option maxHeartbeats 1600000 in
/-- **local2synodic_conjugates_flows (L3)**: the traced map `φ` pushes the Hamiltonian vector field of `(E∘φ)/γ²` (canonical local
structure) forward to the CR3BP vector field evaluated at `φ(c)`: `Dφ · X_H = f∘φ`, for every local point, every `γ ≠ 0`, every `μ`,
away from the primaries. -/
theorem local2synodic_conjugates_flows_L3 (ρ : ℕ → ℝ) (hg : ρ 6 ≠ 0) (h0 : 0 < eval ρ lq3_0) (h1 : 0 < eval ρ lq3_1)
    (i : ℕ) (hi : i < 6) :
    DT ρ (hamVec3 ρ) (phi3 i) = eval ρ (accelLoc3 i) := by
  have hr0 : Real.sqrt (eval ρ lq3_0) ≠ 0 := (Real.sqrt_pos.mpr h0).ne'
  have hr1 : Real.sqrt (eval ρ lq3_1) ≠ 0 := (Real.sqrt_pos.mpr h1).ne'
  interval_cases i <;>
    simp only [phi3, accelLoc3, energyLoc3, hamVec3, DT, D, eval, if_true, if_false, reduceIte, Nat.reduceEqDiff, Nat.reduceSub] <;>
    (generalize Real.sqrt (eval ρ lq3_0) = r0 at *
     generalize Real.sqrt (eval ρ lq3_1) = r1 at *
     simp only [lq3_0, lq3_1, D, eval, if_true, if_false, reduceIte, Nat.reduceEqDiff, Nat.reduceSub]
     try field_simp
     try ring)

/-- **local_synodic_inverse (L3)**: the traced synodic→local map undoes the traced local→synodic map exactly -/
theorem local_synodic_inverse_L3 (ρ : ℕ → ℝ) (hg : ρ 6 ≠ 0) (i : ℕ) (hi : i < 6) : eval ρ (back3 i) = ρ i := by
  interval_cases i <;> simp only [back3, eval] <;> (try field_simp) <;> (try ring)

/-- the local origin is mapped to the libration point at rest: `X = 1−μ−γ` (L1), `1−μ+γ` (L2), `−μ−γ` (L3) — the points whose
`γ` solve the quintics of C04 -/
theorem origin_maps_to_point (g mu : ℝ) :
    let ρ : ℕ → ℝ := fun k => if k = 6 then g else if k = 7 then mu else 0
    eval ρ (phi1 0) = 1 - mu - g ∧ eval ρ (phi2 0) = 1 - mu + g ∧ eval ρ (phi3 0) = -mu - g ∧
    (∀ i, 1 ≤ i → i < 6 → eval ρ (phi1 i) = 0 ∧ eval ρ (phi2 i) = 0 ∧ eval ρ (phi3 i) = 0) := by
  intro ρ
  refine ⟨?_, ?_, ?_, ?_⟩
  · simp [phi1, eval, ρ] <;> ring
  · simp [phi2, eval, ρ] <;> ring
  · simp [phi3, eval, ρ] <;> ring
  · intro i h1 h6
    interval_cases i <;> simp [phi1, phi2, phi3, eval, ρ]

/-! ### triangular points L4, L5 (traced maps, variables 0..5 = x y z p_x p_y p_z, 7 = μ) -/

/-- the float `np.sqrt(3)/2` both the maps and the builder use as y-offset of the primaries -/
noncomputable def triH : ℝ := (3900231685776981 : ℝ) / 4503599627370496

/-- Hamiltonian vector field of `H = E∘φ` at `ρ` in the local canonical variables of the triangular point L4 (no scaling: γ = 1) -/
noncomputable def hamVec4 (ρ : ℕ → ℝ) : ℕ → ℝ
  | 0 => eval ρ (D 3 energyLoc4)
  | 1 => eval ρ (D 4 energyLoc4)
  | 2 => eval ρ (D 5 energyLoc4)
  | 3 => -(eval ρ (D 0 energyLoc4))
  | 4 => -(eval ρ (D 1 energyLoc4))
  | 5 => -(eval ρ (D 2 energyLoc4))
  | _ => 0

set_option maxHeartbeats 1600000 in
/-- **local2synodic_conjugates_flows (L4)**: the traced triangular map `φ` pushes the Hamiltonian vector field of `E∘φ` (canonical
local structure) forward to the CR3BP vector field evaluated at `φ(c)`: `Dφ · X_H = f∘φ`, for every local point and every `μ`, away
from the primaries. -/
theorem local2synodic_conjugates_flows_L4 (ρ : ℕ → ℝ) (h0 : 0 < eval ρ lq4_0) (h1 : 0 < eval ρ lq4_1)
    (i : ℕ) (hi : i < 6) :
    DT ρ (hamVec4 ρ) (phi4 i) = eval ρ (accelLoc4 i) := by
  have hr0 : Real.sqrt (eval ρ lq4_0) ≠ 0 := (Real.sqrt_pos.mpr h0).ne'
  have hr1 : Real.sqrt (eval ρ lq4_1) ≠ 0 := (Real.sqrt_pos.mpr h1).ne'
  interval_cases i <;>
    simp only [phi4, accelLoc4, energyLoc4, hamVec4, DT, D, eval, if_true, if_false, reduceIte, Nat.reduceEqDiff, Nat.reduceSub] <;>
    (generalize Real.sqrt (eval ρ lq4_0) = r0 at *
     generalize Real.sqrt (eval ρ lq4_1) = r1 at *
     simp only [lq4_0, lq4_1, D, eval, if_true, if_false, reduceIte, Nat.reduceEqDiff, Nat.reduceSub]
     try field_simp
     try ring)

/-- **local_synodic_inverse (L4)**: the traced synodic→local map undoes the traced local→synodic map exactly -/
theorem local_synodic_inverse_L4 (ρ : ℕ → ℝ) (i : ℕ) (hi : i < 6) : eval ρ (back4 i) = ρ i := by
  interval_cases i <;> simp only [back4, eval] <;> (try field_simp) <;> (try ring)

/-- **energyLoc4_closed_form**: the exact energy in the library's local coordinates at L4 is the function whose Taylor expansion
the triangular builder documents: `½|p|² + y p_x − x p_y + (½−μ)x + d_y y − (1−μ)/|r − d_S| − μ/|r − d_J|` plus a constant, with
`d_S = (½, d_y)`, `d_J = (−½, d_y)`, `d_y = +triH` (the float `√3/2`) — the offsets the builder passes (`tri_builder_traced`). -/
theorem energyLoc4_closed_form (ρ : ℕ → ℝ) :
    eval ρ energyLoc4 = 1 / 2 * (ρ 3 ^ 2 + ρ 4 ^ 2 + ρ 5 ^ 2) + ρ 1 * ρ 3 - ρ 0 * ρ 4 + (1 / 2 - ρ 7) * ρ 0 + triH * ρ 1
      - (1 - ρ 7) / Real.sqrt ((ρ 0 - 1 / 2) ^ 2 + (ρ 1 - triH) ^ 2 + ρ 2 ^ 2)
      - ρ 7 / Real.sqrt ((ρ 0 + 1 / 2) ^ 2 + (ρ 1 - triH) ^ 2 + ρ 2 ^ 2)
      - (1 / 2 * (ρ 7 - 1 / 2) ^ 2 + 1 / 2 * triH ^ 2 + 1 / 2 * (1 - ρ 7) * ρ 7) := by
  have e0 : eval ρ lq4_0 = (ρ 0 - 1 / 2) ^ 2 + (ρ 1 - triH) ^ 2 + ρ 2 ^ 2 := by
    simp only [lq4_0, eval, triH]; push_cast; ring
  have e1 : eval ρ lq4_1 = (ρ 0 + 1 / 2) ^ 2 + (ρ 1 - triH) ^ 2 + ρ 2 ^ 2 := by
    simp only [lq4_1, eval, triH]; push_cast; ring
  simp only [energyLoc4, eval]
  rw [e0, e1]
  simp only [triH]; push_cast; ring

/-- Hamiltonian vector field of `H = E∘φ` at `ρ` in the local canonical variables of the triangular point L5 (no scaling: γ = 1) -/
noncomputable def hamVec5 (ρ : ℕ → ℝ) : ℕ → ℝ
  | 0 => eval ρ (D 3 energyLoc5)
  | 1 => eval ρ (D 4 energyLoc5)
  | 2 => eval ρ (D 5 energyLoc5)
  | 3 => -(eval ρ (D 0 energyLoc5))
  | 4 => -(eval ρ (D 1 energyLoc5))
  | 5 => -(eval ρ (D 2 energyLoc5))
  | _ => 0

set_option maxHeartbeats 1600000 in
/-- **local2synodic_conjugates_flows (L5)**: the traced triangular map `φ` pushes the Hamiltonian vector field of `E∘φ` (canonical
local structure) forward to the CR3BP vector field evaluated at `φ(c)`: `Dφ · X_H = f∘φ`, for every local point and every `μ`, away
from the primaries. -/
theorem local2synodic_conjugates_flows_L5 (ρ : ℕ → ℝ) (h0 : 0 < eval ρ lq5_0) (h1 : 0 < eval ρ lq5_1)
    (i : ℕ) (hi : i < 6) :
    DT ρ (hamVec5 ρ) (phi5 i) = eval ρ (accelLoc5 i) := by
  have hr0 : Real.sqrt (eval ρ lq5_0) ≠ 0 := (Real.sqrt_pos.mpr h0).ne'
  have hr1 : Real.sqrt (eval ρ lq5_1) ≠ 0 := (Real.sqrt_pos.mpr h1).ne'
  interval_cases i <;>
    simp only [phi5, accelLoc5, energyLoc5, hamVec5, DT, D, eval, if_true, if_false, reduceIte, Nat.reduceEqDiff, Nat.reduceSub] <;>
    (generalize Real.sqrt (eval ρ lq5_0) = r0 at *
     generalize Real.sqrt (eval ρ lq5_1) = r1 at *
     simp only [lq5_0, lq5_1, D, eval, if_true, if_false, reduceIte, Nat.reduceEqDiff, Nat.reduceSub]
     try field_simp
     try ring)

/-- **local_synodic_inverse (L5)**: the traced synodic→local map undoes the traced local→synodic map exactly -/
theorem local_synodic_inverse_L5 (ρ : ℕ → ℝ) (i : ℕ) (hi : i < 6) : eval ρ (back5 i) = ρ i := by
  interval_cases i <;> simp only [back5, eval] <;> (try field_simp) <;> (try ring)

/-- **energyLoc5_closed_form**: the exact energy in the library's local coordinates at L5 is the function whose Taylor expansion
the triangular builder documents: `½|p|² + y p_x − x p_y + (½−μ)x + d_y y − (1−μ)/|r − d_S| − μ/|r − d_J|` plus a constant, with
`d_S = (½, d_y)`, `d_J = (−½, d_y)`, `d_y = −triH` (the float `√3/2`) — the offsets the builder passes (`tri_builder_traced`). -/
theorem energyLoc5_closed_form (ρ : ℕ → ℝ) :
    eval ρ energyLoc5 = 1 / 2 * (ρ 3 ^ 2 + ρ 4 ^ 2 + ρ 5 ^ 2) + ρ 1 * ρ 3 - ρ 0 * ρ 4 + (1 / 2 - ρ 7) * ρ 0 + (-triH) * ρ 1
      - (1 - ρ 7) / Real.sqrt ((ρ 0 - 1 / 2) ^ 2 + (ρ 1 - (-triH)) ^ 2 + ρ 2 ^ 2)
      - ρ 7 / Real.sqrt ((ρ 0 + 1 / 2) ^ 2 + (ρ 1 - (-triH)) ^ 2 + ρ 2 ^ 2)
      - (1 / 2 * (ρ 7 - 1 / 2) ^ 2 + 1 / 2 * triH ^ 2 + 1 / 2 * (1 - ρ 7) * ρ 7) := by
  have e0 : eval ρ lq5_0 = (ρ 0 - 1 / 2) ^ 2 + (ρ 1 - (-triH)) ^ 2 + ρ 2 ^ 2 := by
    simp only [lq5_0, eval, triH]; push_cast; ring
  have e1 : eval ρ lq5_1 = (ρ 0 + 1 / 2) ^ 2 + (ρ 1 - (-triH)) ^ 2 + ρ 2 ^ 2 := by
    simp only [lq5_1, eval, triH]; push_cast; ring
  simp only [energyLoc5, eval]
  rw [e0, e1]
  simp only [triH]; push_cast; ring

/-- **tri_builder_traced**: the triangular builder, executed on exact polynomials: the recurrence coefficients are Legendre's
`(2m−1)/m`, `(m−1)/m` (float64 roundings) for m = 2..10; `A_0 = 1`, `A_1 = d·r`, `A_m = c1 (d·r) A_{m−1} − c2 ρ² A_{m−2}` exactly; each
`A_n` homogeneous of degree n; the Hamiltonian is assembled as documented (both points, two mass-parameter markers); the offsets handed to
`_build_A_polynomials` are `(±½, ±triH)` — the constants of the traced maps (`energyLoc4/5_closed_form`) — and `|d|² = 1` up to
float rounding, so that `1 − 2 d·r + ρ² = |r − d|²` and `legendre_generating_identity` (with `x := d·r`, a ring homomorphism) makes
`Σ_{n≤N} A_n` the degree-N Taylor polynomial of `1/|r − d|`. -/
theorem tri_builder_traced :
    (triAB.map (·.1) = [2, 3, 4, 5, 6, 7, 8, 9, 10]) ∧
    (triAB.all fun (n, a, b) =>
      let k : ℚ := (n : ℚ)
      decide (|((a.1 : ℚ) / (a.2 : ℚ)) - (2 * k - 1) / k| ≤ 1 / 2 ^ 50) &&
      decide (|((b.1 : ℚ) / (b.2 : ℚ)) - (k - 1) / k| ≤ 1 / 2 ^ 50)) = true ∧
    triWiringOK = true ∧ triShapeOK = true ∧ triAssemblyOK4 = true ∧ triAssemblyOK5 = true ∧
    triOffsets4 = [((1, 2), (3900231685776981, 4503599627370496)), ((-1, 2), (3900231685776981, 4503599627370496))] ∧
    triOffsets5 = [((1, 2), (-3900231685776981, 4503599627370496)), ((-1, 2), (-3900231685776981, 4503599627370496))] ∧
    |((1 : ℚ) / 2) ^ 2 + ((3900231685776981 : ℚ) / 4503599627370496) ^ 2 - 1| ≤ 1 / 2 ^ 50 := by
  refine ⟨by decide, by decide +kernel, by decide, by decide, by decide, by decide, by decide, by decide, by decide +kernel⟩

/-- the distance identity used above: for any offset `d` in the plane, `|r − d|² = |d|² − 2 d·r + ρ²` -/
theorem tri_distance (x y z dx dy : ℝ) :
    (x - dx) ^ 2 + (y - dy) ^ 2 + z ^ 2 = (dx ^ 2 + dy ^ 2) - 2 * (dx * x + dy * y) + (x ^ 2 + y ^ 2 + z ^ 2) := by ring

/-- the degree-1 terms of the triangular Hamiltonian cancel (L4/L5 are equilibria of the expanded Hamiltonian): the explicit linear part
`(½−μ)x + d_y y` is minus the degree-1 part `−(1−μ)A₁^S − μA₁^J` of the potential -/
theorem tri_linear_terms_cancel (x y mu dy : ℝ) :
    (1 / 2 - mu) * x + dy * y - (1 - mu) * (1 / 2 * x + dy * y) - mu * (-(1 / 2) * x + dy * y) = 0 := by ring

/-! ### sentence 1: the expansion -/

/-- the recurrence coefficients the current builder uses are Legendre's `(2n−1)/n`, `(n−1)/n` (float64 roundings, 2⁻⁵⁰), for
n = 2..10, and the builder's wiring / shape / assembly are as documented:
`T_0 = 1, T_1 = x, T_n = a_n x T_{n−1} − b_n (x²+y²+z²) T_{n−2}`; `H = ½|p|² + y p_x − x p_y − Σ_{n=2..N} c_n T_n`, constant removed. -/
theorem legendre_recurrence_traced :
    (legendreAB.map (·.1) = [2, 3, 4, 5, 6, 7, 8, 9, 10]) ∧
    (legendreAB.all fun (n, a, b) =>
      let k : ℚ := (n : ℚ)
      decide (|((a.1 : ℚ) / (a.2 : ℚ)) - (2 * k - 1) / k| ≤ 1 / 2 ^ 50) &&
      decide (|((b.1 : ℚ) / (b.2 : ℚ)) - (k - 1) / k| ≤ 1 / 2 ^ 50)) = true ∧
    legendreWiringOK = true ∧ legendreShapeOK = true ∧ assemblyOK = true := by
  refine ⟨by decide, by decide +kernel, by decide, by decide, by decide⟩

/-- **legendre_generating_identity**: for the exact recurrence and EVERY truncation degree N ≤ 10 (the property's range), in
ℚ[x, ρ²] truncated at degree N: `(Σ_{n≤N} T_n)² · (1 − 2x + ρ²) = 1`.  Since a power series `g` with `g(0) = 1` and
`g²·q = 1` is unique, `Σ T_n` is the degree-N Taylor polynomial of `1/√(1 − 2x + ρ²) = 1/|r − e₁|`; each `T_n` is homogeneous of
degree n, so `T_n(r/d) = T_n(r)/dⁿ` gives the expansion about a primary at distance `d`. -/
theorem legendre_generating_identity :
    ((List.range 11).all fun N => Legendre.generatingIdentity N && Legendre.homogeneous N) = true := by
  decide +kernel

/-- **legendre_generating_identity_all_degrees** (power-series form; `Lemmas/Legendre.lean`).  For EVERY degree, not only N ≤ 10:
let `R` be a commutative ring without additive torsion (e.g. any ℚ-algebra, `ℚ[x,y,z]`, ℝ), `x s : R`, and `T : ℕ → R` any
sequence with `T 0 = 1`, `T 1 = x` and `(n+2)·T (n+2) = (2n+3)·x·T (n+1) − (n+1)·s·T n` — the recurrence of
`_build_T_polynomials` (`T_m = (2m−1)/m · x · T_{m−1} − (m−1)/m · s · T_{m−2}`, traced in `legendre_recurrence_traced`) at `m = n+2`,
multiplied by `m`.  Then in `R⟦t⟧`: `(1 − 2x·t + s·t²) · (Σ_n T_n tⁿ)² = 1`, i.e. `Σ T_n tⁿ` is THE power series
`1/√(1 − 2xt + st²)` with constant term 1.  Proof: the recurrence is coefficientwise the ODE `(1−2xt+st²) G' = (x−st) G`, hence
`d/dt[(1−2xt+st²) G²] = 0`.  `legendre_generating_identity` above (computed by the kernel on the executable recurrence
`Core/Legendre.lean`, N ≤ 10 = the range traced from the code) is thereby an instance of a theorem valid for all N. -/
theorem legendre_generating_identity_all_degrees {R : Type*} [CommRing R] [IsAddTorsionFree R] (x s : R) (T : ℕ → R)
    (h0 : T 0 = 1) (h1 : T 1 = x)
    (hrec : ∀ n : ℕ, ((n : R) + 2) * T (n + 2) = (2 * (n : R) + 3) * (x * T (n + 1)) - ((n : R) + 1) * (s * T n)) :
    (1 - 2 * PowerSeries.C x * PowerSeries.X + PowerSeries.C s * PowerSeries.X ^ 2) * PowerSeries.mk T ^ 2 = 1 :=
  LegendreGen.generating_identity x s T h0 h1 hrec

/-- the same over a ℚ-algebra with the recurrence in rational scalars (`(2m−1)/m`, `(m−1)/m` cleared of the denominator `m = n+2`) -/
theorem legendre_generating_identity_rat {R : Type*} [CommRing R] [Algebra ℚ R] (x s : R) (T : ℕ → R)
    (h0 : T 0 = 1) (h1 : T 1 = x)
    (hrec : ∀ n : ℕ, ((n : ℚ) + 2) • T (n + 2) = (2 * (n : ℚ) + 3) • (x * T (n + 1)) - ((n : ℚ) + 1) • (s * T n)) :
    (1 - 2 * PowerSeries.C x * PowerSeries.X + PowerSeries.C s * PowerSeries.X ^ 2) * PowerSeries.mk T ^ 2 = 1 :=
  LegendreGen.generating_identity_rat x s T h0 h1 hrec

/-- **legendre_truncated_identity** (the statement the property uses, every N): with `g_N = Σ_{n≤N} T_n tⁿ`
(`LegendreGen.partialSum`) and `q = 1 − 2x·t + s·t²` (`LegendreGen.quadPoly`), polynomials in the grading variable `t`, every
coefficient of `t^r`, `r ≤ N`, of `q · g_N²` is `1` (r = 0) or `0` (1 ≤ r ≤ N): `q · g_N² ≡ 1` modulo `t^{N+1}`. -/
theorem legendre_truncated_identity {R : Type*} [CommRing R] [IsAddTorsionFree R] (x s : R) (T : ℕ → R)
    (h0 : T 0 = 1) (h1 : T 1 = x)
    (hrec : ∀ n : ℕ, ((n : R) + 2) * T (n + 2) = (2 * (n : R) + 3) * (x * T (n + 1)) - ((n : R) + 1) * (s * T n))
    (N r : ℕ) (hr : r ≤ N) :
    (LegendreGen.quadPoly x s * LegendreGen.partialSum T N ^ 2).coeff r = if r = 0 then 1 else 0 :=
  LegendreGen.truncated_identity x s T h0 h1 hrec N r hr

/-- **legendre_homogeneous_identity** (every N, in `ℚ[x,y,z]` — the all-degree version of `legendre_generating_identity`): with
`T_n = LegendreGen.Tpoly n` defined by the code's recurrence (`x = X 0`, `ρ² = X 0² + X 1² + X 2²`), each `T_n` is homogeneous of
degree `n`, and `(Σ_{n≤N} T_n)² · (1 − 2x + ρ²)` has homogeneous component `1` in degree 0 and `0` in degrees `1..N`:
it is `≡ 1` modulo terms of degree `> N`. -/
theorem legendre_homogeneous_identity :
    (∀ n, (LegendreGen.Tpoly n).IsHomogeneous n) ∧
    ∀ N r : ℕ, r ≤ N →
      MvPolynomial.homogeneousComponent r
        ((∑ n ∈ Finset.range (N + 1), LegendreGen.Tpoly n) ^ 2 * (1 - 2 * LegendreGen.xv + LegendreGen.sv))
        = if r = 0 then 1 else 0 :=
  ⟨LegendreGen.Tpoly_isHomogeneous, LegendreGen.homogeneous_identity⟩

/-- non-vacuity of the recurrence hypotheses: over `ℚ` with `x = s = 1` the constant sequence `T n = 1` satisfies them
(`G = 1/(1−t)`, `(1−t)²·G² = 1`) -/
example : (1 - 2 * PowerSeries.C (1 : ℚ) * PowerSeries.X + PowerSeries.C (1 : ℚ) * PowerSeries.X ^ 2)
    * PowerSeries.mk (fun _ : ℕ => (1 : ℚ)) ^ 2 = 1 :=
  legendre_generating_identity_all_degrees (R := ℚ) 1 1 (fun _ => 1) rfl rfl (fun n => by ring)

/-- **inv_sqrt_unique** (`Lemmas/LegendreUnique.lean`): uniqueness of the inverse square root in `R⟦t⟧` — the step from "generating
identity" to "`Σ T_n tⁿ` IS the Taylor series of `1/√q`".  `R` any commutative ring in which `2` is a unit (no domain hypothesis): two
power series with constant coefficient `1` whose squares are inverse to the same `q` are equal.  (`g² = h²` since `q` is a unit;
`(g − h)(g + h) = 0`; `g + h` has constant coefficient `2`, hence is a unit of `R⟦t⟧`.) -/
theorem inv_sqrt_unique {R : Type*} [CommRing R] (h2 : IsUnit (2 : R)) (q g h : PowerSeries R)
    (hg0 : PowerSeries.constantCoeff g = 1) (hh0 : PowerSeries.constantCoeff h = 1)
    (hg : g ^ 2 * q = 1) (hh : h ^ 2 * q = 1) : g = h :=
  LegendreGen.inv_sqrt_unique h2 q g h hg0 hh0 hg hh

/-- **legendre_series_unique**: `Σ T_n tⁿ` is THE inverse square root of `1 − 2xt + st²`.  For `T` as in
`legendre_generating_identity_all_degrees` (and `2` a unit of `R`): every power series `g` with `g(0) = 1` and
`g²·(1 − 2xt + st²) = 1` equals `Σ T_n tⁿ`; with `legendre_generating_identity_all_degrees` this is existence and uniqueness
(`LegendreGen.legendre_inv_sqrt_existsUnique`), so `T n` is the n-th Taylor coefficient of `1/√(1 − 2xt + st²)`. -/
theorem legendre_series_unique {R : Type*} [CommRing R] [IsAddTorsionFree R] (h2 : IsUnit (2 : R)) (x s : R) (T : ℕ → R)
    (h0 : T 0 = 1) (h1 : T 1 = x)
    (hrec : ∀ n : ℕ, ((n : R) + 2) * T (n + 2) = (2 * (n : R) + 3) * (x * T (n + 1)) - ((n : R) + 1) * (s * T n))
    (g : PowerSeries R) (hg0 : PowerSeries.constantCoeff g = 1)
    (hg : g ^ 2 * (1 - 2 * PowerSeries.C x * PowerSeries.X + PowerSeries.C s * PowerSeries.X ^ 2) = 1) :
    PowerSeries.mk T = g ∧ ∀ n, T n = PowerSeries.coeff n g :=
  ⟨LegendreGen.legendre_series_unique h2 x s T h0 h1 hrec g hg0 hg,
   LegendreGen.legendre_coeff_unique h2 x s T h0 h1 hrec g hg0 hg⟩

/-- the same over a ℚ-algebra (torsion-freeness and invertibility of 2 are automatic), as an `∃!` -/
theorem legendre_inv_sqrt_existsUnique {R : Type*} [CommRing R] [Algebra ℚ R] (x s : R) (T : ℕ → R)
    (h0 : T 0 = 1) (h1 : T 1 = x)
    (hrec : ∀ n : ℕ, ((n : R) + 2) * T (n + 2) = (2 * (n : R) + 3) * (x * T (n + 1)) - ((n : R) + 1) * (s * T n)) :
    ∃! g : PowerSeries R, PowerSeries.constantCoeff g = 1 ∧
      g ^ 2 * (1 - 2 * PowerSeries.C x * PowerSeries.X + PowerSeries.C s * PowerSeries.X ^ 2) = 1 :=
  have : IsAddTorsionFree R := IsAddTorsionFree.of_module_rat R
  LegendreGen.legendre_inv_sqrt_existsUnique (LegendreGen.isUnit_two_of_algebra_rat R) x s T h0 h1 hrec

/-- two sequences satisfying the recurrence hypotheses (same `x`, `s`) coincide -/
theorem legendre_sequence_unique {R : Type*} [CommRing R] [IsAddTorsionFree R] (h2 : IsUnit (2 : R)) (x s : R) (T T' : ℕ → R)
    (h0 : T 0 = 1) (h1 : T 1 = x)
    (hrec : ∀ n : ℕ, ((n : R) + 2) * T (n + 2) = (2 * (n : R) + 3) * (x * T (n + 1)) - ((n : R) + 1) * (s * T n))
    (h0' : T' 0 = 1) (h1' : T' 1 = x)
    (hrec' : ∀ n : ℕ, ((n : R) + 2) * T' (n + 2) = (2 * (n : R) + 3) * (x * T' (n + 1)) - ((n : R) + 1) * (s * T' n)) :
    T = T' :=
  LegendreGen.legendre_sequence_unique h2 x s T T' h0 h1 hrec h0' h1' hrec'

/-- non-vacuity of `inv_sqrt_unique` / `legendre_series_unique`: over `ℚ` with `x = s = 1` (`q = (1−t)²`) the only `g` with `g(0) = 1`,
`g²(1−t)² = 1` is `Σ tⁿ` (the other square root `−Σ tⁿ` has `g(0) = −1`); the hypotheses are satisfied by `g = Σ tⁿ` itself
(`legendre_generating_identity_all_degrees`, example above) -/
example (g : PowerSeries ℚ) (hg0 : PowerSeries.constantCoeff g = 1)
    (hg : g ^ 2 * (1 - 2 * PowerSeries.C (1 : ℚ) * PowerSeries.X + PowerSeries.C (1 : ℚ) * PowerSeries.X ^ 2) = 1) :
    g = PowerSeries.mk fun _ => (1 : ℚ) :=
  (LegendreGen.legendre_series_unique_rat (R := ℚ) 1 1 (fun _ => 1) rfl rfl (fun n => by ring) g hg0 hg).symm

/-- **legendre_list_model_denotes** (`Lemmas/LegendreLink.lean`): the executable list model `Core/Legendre.lean` on which
`legendre_generating_identity` is computed denotes the Mathlib sequence, for every truncation degree `N`.  With
`den : P2 → ℚ[x, s]` (`(i, j, c) ↦ c·xⁱ sʲ`, summed; `LegendreLink.coeff_den`: its coefficients are `Legendre.coeff`) and `Tw` the
sequence of the code's recurrence in `ℚ[x, s] = MvPolynomial (Fin 2) ℚ` (`x = X 0`, `s = X 1`; `LegendreLink.toXYZ_Tw`: it maps to
`LegendreGen.Tpoly` under `s ↦ x² + y² + z²`):
(1) for all `N, n` the list `Ts N n` is `[T_n, …, T_0]`, entry `k` agreeing with `Tw k` on every monomial of weight `≤ N` (`x` weight 1,
    `s` weight 2) and storing only terms of weight `k`;
(2) for `n ≤ N` nothing is truncated: `(Ts N n).map den = [Tw n, …, Tw 0]` exactly;
(3) `sumTs N` agrees with `Σ_{n≤N} Tw n` up to weight `N`. -/
theorem legendre_list_model_denotes :
    (∀ N n, List.Forall₂ (LegendreLink.Rel N) (Legendre.Ts N n) (LegendreLink.desc n)) ∧
    (∀ N n, n ≤ N → (Legendre.Ts N n).map LegendreLink.den = (LegendreLink.desc n).map LegendreLink.Tw) ∧
    (∀ N, LegendreLink.EqUpTo N (LegendreLink.den (Legendre.sumTs N)) (∑ k ∈ Finset.range (N + 1), LegendreLink.Tw k)) :=
  ⟨LegendreLink.Ts_rel, LegendreLink.Ts_exact, LegendreLink.den_sumTs⟩

/-- **legendre_generating_identity_list_model_all_degrees**: the Boolean that `legendre_generating_identity` evaluates in the kernel for
`N ≤ 10` is `true` for EVERY `N` — by `legendre_list_model_denotes`, the correctness of `mulTrunc`/`normalize` up to weight `N`, and
`legendre_truncated_identity` applied in `R = ℚ[x, s]` (weight-graded). -/
theorem legendre_generating_identity_list_model_all_degrees (N : ℕ) :
    (Legendre.generatingIdentity N && Legendre.homogeneous N) = true :=
  LegendreLink.list_model_all N

/-- **cn_closed_form** (n = 2, 3, 4 as traced in `Gen.C04`): `c_n` is `γ⁻³` times the weight with which `T_n` enters
`(1−μ)/r₁ + μ/r₂` in the scaled local frame: `μ + (1−μ)(−1)ⁿ/dⁿ⁺¹` (L1, `d = (1−γ)/γ`), `(−1)ⁿ[μ + (1−μ)/dⁿ⁺¹]` (L2, `d = (1+γ)/γ`),
`(−1)ⁿ[(1−μ) + μ/dⁿ⁺¹]` (L3, `d = (1+γ)/γ`, lengths scaled by the distance to the large primary). -/
theorem cn_closed_form (g mu : ℝ) (hg0 : 0 < g) (hg1 : g < 1) :
    let ρ : ℕ → ℝ := fun k => if k = 0 then g else mu
    let d1 := (1 - g) / g
    let d2 := (1 + g) / g
    eval ρ Gen.C04.cn1_2 = (mu + (1 - mu) / d1 ^ 3) / g ^ 3 ∧ eval ρ Gen.C04.cn1_3 = (mu - (1 - mu) / d1 ^ 4) / g ^ 3 ∧
    eval ρ Gen.C04.cn1_4 = (mu + (1 - mu) / d1 ^ 5) / g ^ 3 ∧
    eval ρ Gen.C04.cn2_2 = (mu + (1 - mu) / d2 ^ 3) / g ^ 3 ∧ eval ρ Gen.C04.cn2_3 = -(mu + (1 - mu) / d2 ^ 4) / g ^ 3 ∧
    eval ρ Gen.C04.cn2_4 = (mu + (1 - mu) / d2 ^ 5) / g ^ 3 ∧
    eval ρ Gen.C04.cn3_2 = ((1 - mu) + mu / d2 ^ 3) / g ^ 3 ∧ eval ρ Gen.C04.cn3_3 = -((1 - mu) + mu / d2 ^ 4) / g ^ 3 ∧
    eval ρ Gen.C04.cn3_4 = ((1 - mu) + mu / d2 ^ 5) / g ^ 3 := by
  intro ρ d1 d2
  have h1 : (1 - g) ≠ 0 := by linarith
  have h2 : (1 + g) ≠ 0 := by linarith
  have h3 : g ≠ 0 := hg0.ne'
  refine ⟨?_, ?_, ?_, ?_, ?_, ?_, ?_, ?_, ?_⟩ <;>
    simp [Gen.C04.cn1_2, Gen.C04.cn1_3, Gen.C04.cn1_4, Gen.C04.cn2_2, Gen.C04.cn2_3, Gen.C04.cn2_4, Gen.C04.cn3_2,
      Gen.C04.cn3_3, Gen.C04.cn3_4, eval, ρ, d1, d2] <;>
    field_simp <;> ring

/-- non-vacuity: an Earth–Moon-like L1 configuration satisfies the hypotheses of the conjugacy theorem -/
example : let ρ : ℕ → ℝ := fun k => [0.01, -0.008, 0.012, 0.006, 0.01, -0.014, 0.15, 0.0121505856].getD k 0
    ρ 6 ≠ 0 := by
  intro ρ; simp only [ρ, List.getD_cons_zero, List.getD_cons_succ]; norm_num

end HitenModel.Props.C07
