/- Drivers/C02Ctl.lean — line protocol for the controller model (see harness/props/c02.py `controller_corr`). -/
import HitenModel.Core.C02Ctl
import HitenModel.Core.Drv
open HitenModel.C02Ctl Drv

def pw (s : String) : Option Pw := if s == "nan" then some Pw.nan else (parseRat? s).map Pw.val

def handle (c : Ctl) (line : String) : IO Ctl := do
  match words line with
  | ["ctl", a, b, d] =>
      match parseRat? a, parseRat? b, parseRat? d with
      | some x, some y, some z => return { safety := x, minF := y, maxF := z }
      | _, _, _ => IO.println "bad-op"; return c
  | ["accept", z, p] =>
      match pw p with
      | some q => IO.println (showRat (acceptFactor c (z == "1") q)); return c
      | none => IO.println "bad-op"; return c
  | ["reject", z, p] =>
      match pw p with
      | some q => IO.println (showRat (rejectFactor c (z == "1") q)); return c
      | none => IO.println "bad-op"; return c
  | ["clamp", h, mx, mn] =>
      match parseRat? h, parseRat? mx, parseRat? mn with
      | some x, some y, some z => IO.println (showRat (clampStep x y z)); return c
      | _, _, _ => IO.println "bad-op"; return c
  | ["adjust", t, h, te] =>
      match parseRat? t, parseRat? h, parseRat? te with
      | some x, some y, some z => IO.println (showRat (adjustToEndpoint x y z)); return c
      | _, _, _ => IO.println "bad-op"; return c
  | ["init", sm, tiny, q, mn, mx] =>
      match parseRat? tiny, parseRat? q, parseRat? mn, parseRat? mx with
      | some a, some b, some d, some e => IO.println (showRat (selectInitialStep (sm == "1") a b d e)); return c
      | _, _, _, _ => IO.println "bad-op"; return c
  | [] => return c
  | _ => IO.println "bad-op"; return c

def main : IO Unit := do
  let _ ← forLines (← IO.getStdin) Ctl default handle
  return ()
