"""Helpers to build packed polynomials / polynomial Hamiltonian systems of the real library from plain dicts."""
from __future__ import annotations

import numpy as np

_TABLES = {}


def tables(max_deg):
    from hiten.algorithms.polynomial.base import _create_encode_dict_from_clmo, _init_index_tables
    if max_deg not in _TABLES:
        psi, clmo = _init_index_tables(max_deg)
        enc = _create_encode_dict_from_clmo(clmo)
        _TABLES[max_deg] = (psi, clmo, enc)
    return _TABLES[max_deg]


def poly_from_dict(d, max_deg, dtype=np.complex128):
    """d: {(k0..k5): coeff}. Returns numba typed List of coefficient arrays (degree 0..max_deg)."""
    from numba.typed import List
    from hiten.algorithms.polynomial.base import _encode_multiindex
    psi, clmo, enc = tables(max_deg)
    blocks = [np.zeros(psi[6, deg], dtype=dtype) for deg in range(max_deg + 1)]
    for k, c in d.items():
        deg = sum(k)
        idx = _encode_multiindex(np.array(k, dtype=np.int64), deg, enc)
        assert idx != -1
        blocks[deg][idx] += c
    out = List()
    for b in blocks:
        out.append(b)
    return out


def ham_system(d, max_deg, name="verif-ham"):
    from hiten.algorithms.dynamics.hamiltonian import create_hamiltonian_system
    psi, clmo, enc = tables(max_deg)
    H = poly_from_dict(d, max_deg)
    return create_hamiltonian_system(H_blocks=H, degree=max_deg, psi_table=psi, clmo_table=clmo,
                                     encode_dict_list=enc, n_dof=3, name=name), H


def eval_poly_dict(d, z):
    """exact-ish evaluation of the dict polynomial at a 6-vector (python floats)"""
    s = 0.0
    for k, c in d.items():
        t = c
        for zi, ki in zip(z, k):
            t = t * zi ** ki
        s += t
    return s


def grad_poly_dict(d, z):
    g = [0.0] * 6
    for k, c in d.items():
        for j in range(6):
            if k[j] == 0:
                continue
            t = c * k[j]
            for i, (zi, ki) in enumerate(zip(z, k)):
                e = ki - 1 if i == j else ki
                t = t * zi ** e
            g[j] += t
    return g
