/- Drivers/C08.lean — line-protocol driver of the Lie-series model over the Gaussian rationals
   (see harness/props/c08.py).

   cfg <N> <e1> <e2> <e3> <small> <tol> <res>     eta (Gaussian rationals "re,im"), thresholds (rationals)
   clear <slot> | term <slot> k0 k1 k2 k3 k4 k5 <c>
   select partial|full <slot> | solve <slot> | poisson <P> <Q> | apply <n> <H> <G> | coord <X> <G>
   lie partial|full <H> (results also stored in slots trans, G, elim) | expand fwd|inv <sign> <restrict> <G> | zero <slot> | eval <z0> … <z5> | evalp <slot> <z0> … <z5>
   kcount <N> <n>
-/
import HitenModel.Core.C08
import HitenModel.Core.Drv
open HitenModel.C08 Drv

namespace D08

def parseGQ? (s : String) : Option GQ :=
  match s.splitOn "," with
  | [a] => (parseRat? a).map fun r => ⟨r, 0⟩
  | [a, b] => do
      let x ← parseRat? a
      let y ← parseRat? b
      some ⟨x, y⟩
  | _ => none

def showGQ (a : GQ) : String := s!"{showRat a.re},{showRat a.im}"

def showPoly (p : Poly GQ) : String :=
  ";".intercalate ((normalize p).map fun t =>
    s!"{t.1.a0} {t.1.a1} {t.1.a2} {t.1.a3} {t.1.a4} {t.1.a5} {showGQ t.2}")

structure Sess where
  N : Nat := 4
  e1 : GQ := 0
  e2 : GQ := 0
  e3 : GQ := 0
  small : Rat := 0
  tol : Rat := 0
  res : Rat := 0
  slots : List (String × Poly GQ) := []
  ex : List (Poly GQ) := []

def Sess.get (s : Sess) (n : String) : Poly GQ := ((s.slots.find? fun x => x.1 == n).map (·.2)).getD []

def Sess.put (s : Sess) (n : String) (p : Poly GQ) : Sess :=
  { s with slots := (n, p) :: s.slots.filter fun x => x.1 != n }

def Sess.cfg (s : Sess) (full : Bool) : Cfg GQ :=
  { e1 := s.e1, e2 := s.e2, e3 := s.e3, small := GQ.absLt s.small, tiny := GQ.absLe s.tol,
    sel := if full then selFull (GQ.absLt s.res) s.e1 s.e2 s.e3 else selPartial, N := s.N }

def zfun (zs : List GQ) : Nat → GQ := fun j => zs.getD j 0

def handle (s : Sess) (line : String) : IO Sess := do
  match words line with
  | ["cfg", n, a, b, c, sm, tl, rs] =>
      match n.toNat?, parseGQ? a, parseGQ? b, parseGQ? c, parseRat? sm, parseRat? tl, parseRat? rs with
      | some n, some a, some b, some c, some sm, some tl, some rs =>
          return { s with N := n, e1 := a, e2 := b, e3 := c, small := sm, tol := tl, res := rs }
      | _, _, _, _, _, _, _ => IO.println "bad-op"; return s
  | ["clear", sl] => return s.put sl []
  | ["term", sl, k0, k1, k2, k3, k4, k5, c] =>
      match parseNats [k0, k1, k2, k3, k4, k5], parseGQ? c with
      | some [a0, a1, a2, a3, a4, a5], some c => return s.put sl (s.get sl ++ [(⟨a0, a1, a2, a3, a4, a5⟩, c)])
      | _, _ => IO.println "bad-op"; return s
  | ["select", kind, sl] =>
      IO.println s!"out select {showPoly (select (s.cfg (kind == "full")).sel (normalize (s.get sl)))}"; return s
  | ["solve", sl] =>
      IO.println s!"out solve {showPoly (solve (GQ.absLt s.small) s.e1 s.e2 s.e3 (normalize (s.get sl)))}"; return s
  | ["poisson", p, q] =>
      IO.println s!"out poisson {showPoly (trunc s.N (poisson (s.get p) (s.get q)))}"; return s
  | ["apply", n, h, g] =>
      match n.toNat? with
      | some n =>
          IO.println s!"out apply {showPoly (lieSeries (GQ.absLe s.tol) s.N (Kpoly s.N n) (s.get g) (s.get h))}"
          return s
      | none => IO.println "bad-op"; return s
  | ["coord", x, g] =>
      IO.println s!"out coord {showPoly (applyCoord (GQ.absLe s.tol) s.N (s.get g) (s.get x))}"; return s
  | ["lie", kind, h] =>
      let r := lieTransform (s.cfg (kind == "full")) (s.get h)
      IO.println s!"out trans {showPoly r.trans}"
      IO.println s!"out G {showPoly r.G}"
      IO.println s!"out elim {showPoly r.elim}"
      return ((s.put "trans" r.trans).put "G" r.G).put "elim" r.elim
  | ["expand", dir, sign, restrict, g] =>
      match parseGQ? sign with
      | some sg =>
          let ex := lieExpansion (GQ.absLe s.tol) s.N (s.get g) (dir == "inv") sg (restrict == "1")
          for (e, i) in ex.zipIdx do
            IO.println s!"out ex{i} {showPoly e}"
          return { s with ex := ex }
      | none => IO.println "bad-op"; return s
  | ["zero", sl] =>
      IO.println s!"out zero {showPoly (zeroQ1P1 (GQ.absLe s.tol) (s.get sl))}"; return s
  | "eval" :: zs =>
      match zs.mapM parseGQ? with
      | some z => IO.println ("out eval " ++ " ".intercalate ((evalTransform (zfun z) s.ex).map showGQ)); return s
      | none => IO.println "bad-op"; return s
  | "evalp" :: sl :: zs =>
      match zs.mapM parseGQ? with
      | some z => IO.println ("out evalp " ++ showGQ (evalPoly (zfun z) (s.get sl))); return s
      | none => IO.println "bad-op"; return s
  | ["kcount", n, d] =>
      match n.toNat?, d.toNat? with
      | some n, some d => IO.println s!"out kcount {Kpoly n d} {Kcoord n d}"; return s
      | _, _ => IO.println "bad-op"; return s
  | [] => return s
  | _ => IO.println "bad-op"; return s

end D08

def main : IO Unit := do
  let _ ← forLines (← IO.getStdin) D08.Sess {} D08.handle
  return ()
