/-
  Lemmas/C15Gen.lean — the Hermite triple of the C15 model instantiated with the terms traced from the current source
  (Mathlib-free: imported by the line-protocol driver and by Props/C15.lean).
-/
import HitenModel.Core.C15
import HitenModel.Gen.C15

namespace HitenModel.C15

/-- `_hermite_scalar`, `_hermite_der` and the inlined state interpolant of `_refine_hits_cubic`, as traced -/
def genHerm : Herm :=
  { H := fun s y0 y1 d0 d1 dt => evalQ (env6 s y0 y1 d0 d1 dt) Gen.C15.hermite
    H' := fun s y0 y1 d0 d1 dt => evalQ (env6 s y0 y1 d0 d1 dt) Gen.C15.hermiteDer
    Hs := fun s t0 t1 t2 t3 x0 x1 x2 x3 => evalQ (env13 s t0 t1 t2 t3 0 0 0 0 x0 x1 x2 x3) Gen.C15.cubState0I }

end HitenModel.C15
