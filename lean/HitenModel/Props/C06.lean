import HitenModel.Lemmas.C06Poly
import HitenModel.Gen.C06
namespace HitenModel.C06
open HitenModel.Gen.C06

/-- the live `_PSI_GLOBAL` is the model's `psi` (all 7 × 31 entries) -/
theorem gen_psi_is_model : psiReal = (List.range 7).map fun i => (List.range 31).map (psi i) := by decide +kernel

/-- the live `_CLMO_GLOBAL[0..6]` is the model's table -/
theorem gen_clmo_is_model : clmoReal = mkTables 6 := by decide +kernel

/-- the live encode dicts (degree 0..6), read as key-by-slot, are the model's table: the dict is the inverse of clmo -/
theorem gen_encode_is_model : encKeysReal = mkTables 6 := by decide +kernel

theorem gen_constants : nVars = 6 ∧ fastmath = false ∧ tableDegree = 30 ∧ psiShape = (7, 31) := by decide

end HitenModel.C06
