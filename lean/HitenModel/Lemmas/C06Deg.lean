/- Lemmas/C06Deg.lean — `_polynomial_jacobian`, `_polynomial_degree`, `_get_degree`, `_polynomial_total_degree` of the C06 model. -/
import HitenModel.Lemmas.C06Poly

set_option linter.unusedSectionVars false

open MvPolynomial
namespace HitenModel.C06

/-! ### reversed `find?` on a range and the `max`-fold -/

theorem find_rev_range_none (p : Nat → Bool) (n : Nat) :
    (List.range n).reverse.find? p = none ↔ ∀ d, d < n → p d = false := by
  simp [List.find?_eq_none]

theorem find_rev_range_succ (p : Nat → Bool) (n : Nat) :
    (List.range (n + 1)).reverse.find? p = if p n then some n else (List.range n).reverse.find? p := by
  rw [List.range_succ, List.reverse_append, List.reverse_singleton, List.singleton_append, List.find?_cons]
  cases p n <;> rfl

theorem find_rev_range_some (p : Nat → Bool) : ∀ (n d : Nat),
    (List.range n).reverse.find? p = some d → d < n ∧ p d = true ∧ ∀ e, d < e → e < n → p e = false
  | 0, d, h => by simp at h
  | n + 1, d, h => by
    rw [find_rev_range_succ] at h
    by_cases hp : p n = true
    · rw [if_pos hp] at h
      have hd : n = d := Option.some.inj h
      subst hd
      exact ⟨by omega, hp, fun e h1 h2 => by omega⟩
    · rw [if_neg hp] at h
      obtain ⟨h1, h2, h3⟩ := find_rev_range_some p n d h
      refine ⟨by omega, h2, fun e he1 he2 => ?_⟩
      by_cases hen : e = n
      · subst hen; simpa using hp
      · exact h3 e he1 (by omega)

/-- the value both degree functions compute: the largest `d < n` with `p d`, `-1` if none -/
def topIdx (p : Nat → Bool) (n : Nat) : Int :=
  match (List.range n).reverse.find? p with
  | some d => (d : Int)
  | none => -1

theorem topIdx_lt (p : Nat → Bool) (n : Nat) : topIdx p n < (n : Int) := by
  unfold topIdx
  cases h : (List.range n).reverse.find? p with
  | none => simp only; omega
  | some d => have := (find_rev_range_some p n d h).1; simp only; omega

theorem topIdx_succ (p : Nat → Bool) (n : Nat) : topIdx p (n + 1) = if p n then (n : Int) else topIdx p n := by
  unfold topIdx
  rw [find_rev_range_succ]
  by_cases hp : p n = true
  · rw [if_pos hp, if_pos hp]
  · rw [if_neg hp, if_neg hp]

/-- the left fold with `max` computes the same index as the reversed `find?` -/
theorem foldl_max_eq_topIdx (p : Nat → Bool) : ∀ n : Nat,
    (List.range n).foldl (fun (best : Int) d => if p d then max best (d : Int) else best) (-1) = topIdx p n
  | 0 => by simp [topIdx]
  | n + 1 => by
    rw [List.range_succ, List.foldl_append, List.foldl_cons, List.foldl_nil, foldl_max_eq_topIdx p n, topIdx_succ]
    by_cases hp : p n = true
    · rw [if_pos hp, if_pos hp]
      have := topIdx_lt p n
      omega
    · rw [if_neg hp, if_neg hp]

/-! ### `_polynomial_jacobian` -/

section
variable {K : Type} [CommSemiring K] [DecidableEq K]

theorem length_polynomialJacobian (T : List (List Nat)) (σ : Nat → List (List Nat)) (P : GPoly K) (N : Nat) :
    (polynomialJacobian T σ P N).length = 6 := by
  simp [polynomialJacobian]

theorem getD_polynomialJacobian (T : List (List Nat)) (σ : Nat → List (List Nat)) (P : GPoly K) (N : Nat) (v : Fin 6) :
    (polynomialJacobian T σ P N).getD v.val [] = polynomialDifferentiate T σ P v.val N := by
  have hv : v.val < (polynomialJacobian T σ P N).length := by rw [length_polynomialJacobian]; exact v.isLt
  rw [List.getD_eq_getElem _ _ hv]
  simp [polynomialJacobian]

/-- `_polynomial_jacobian`: six entries, entry `v` is `_polynomial_differentiate(…, v, …)`, hence well-formed for `N-1` and
block `r` of entry `v` is `∂/∂x_v` of block `r+1` of the input -/
theorem toMv_polynomialJacobian {D N : Nat} (hD : D ≤ 63) (hN : N ≤ D) (σ : Nat → List (List Nat))
    (hσ : ∀ n, (σ n).flatten.Perm (List.range n)) (P : GPoly K) (hP : WF P N) :
    (polynomialJacobian (mkTables D) σ P N).length = 6 ∧ ∀ v : Fin 6,
      (polynomialJacobian (mkTables D) σ P N).getD v.val [] = polynomialDifferentiate (mkTables D) σ P v.val N ∧
      WF ((polynomialJacobian (mkTables D) σ P N).getD v.val []) (N - 1) ∧ ∀ r, r + 1 ≤ N →
        toMv (mkTables D) r (((polynomialJacobian (mkTables D) σ P N).getD v.val []).getD r [])
          = pderiv v (toMv (mkTables D) (r + 1) (P.getD (r + 1) [])) := by
  refine ⟨length_polynomialJacobian _ _ _ _, fun v => ?_⟩
  rw [getD_polynomialJacobian]
  exact ⟨rfl, toMv_polynomialDifferentiate hD hN σ hσ P hP v⟩

end

/-! ### `_polynomial_degree` -/

section
variable {K : Type} [OfNat K 0] [DecidableEq K]

theorem polynomialDegree_eq_topIdx (P : GPoly K) :
    polynomialDegree P = topIdx (fun d => anyNZ (P.getD d [])) P.length := rfl

theorem polynomialDegree_eq_neg_one (P : GPoly K) :
    polynomialDegree P = -1 ↔ ∀ d, d < P.length → anyNZ (P.getD d []) = false := by
  rw [polynomialDegree_eq_topIdx, ← find_rev_range_none (fun d => anyNZ (P.getD d [])) P.length]
  unfold topIdx
  cases h : (List.range P.length).reverse.find? (fun d => anyNZ (P.getD d [])) with
  | none => simp
  | some d => simp only [reduceCtorEq]

theorem polynomialDegree_eq_nat (P : GPoly K) (d : Nat) (h : polynomialDegree P = (d : Int)) :
    d < P.length ∧ anyNZ (P.getD d []) = true ∧ ∀ e, d < e → e < P.length → anyNZ (P.getD e []) = false := by
  rw [polynomialDegree_eq_topIdx] at h
  unfold topIdx at h
  cases h' : (List.range P.length).reverse.find? (fun d => anyNZ (P.getD d [])) with
  | none => rw [h'] at h; simp only at h; omega
  | some d' =>
    rw [h'] at h
    simp only at h
    have hd : d' = d := by omega
    subst hd
    exact find_rev_range_some (fun d => anyNZ (P.getD d [])) P.length d' h'

/-- conversely: the characterisation determines the value -/
theorem polynomialDegree_of_top (P : GPoly K) (d : Nat) (hd : d < P.length) (hnz : anyNZ (P.getD d []) = true)
    (htop : ∀ e, d < e → e < P.length → anyNZ (P.getD e []) = false) : polynomialDegree P = (d : Int) := by
  rw [polynomialDegree_eq_topIdx]
  unfold topIdx
  cases h' : (List.range P.length).reverse.find? (fun d => anyNZ (P.getD d [])) with
  | none =>
    have := (find_rev_range_none _ _).mp h' d hd
    rw [hnz] at this
    exact absurd this (by simp)
  | some d' =>
    obtain ⟨h1, h2, h3⟩ := find_rev_range_some _ _ _ h'
    simp only at h2 h3 ⊢
    by_cases hlt : d' < d
    · have := h3 d hlt hd; rw [hnz] at this; exact absurd this (by simp)
    · by_cases hgt : d < d'
      · have := htop d' hgt h1; rw [h2] at this; exact absurd this (by simp)
      · have : d' = d := by omega
        rw [this]

/-- `np.any(b)` is true iff some slot is non-zero -/
theorem anyNZ_true {b : List K} (h : anyNZ b = true) : ∃ i, i < b.length ∧ b.getD i 0 ≠ 0 := by
  unfold anyNZ at h
  rw [List.any_eq_true] at h
  obtain ⟨x, hx, hx0⟩ := h
  obtain ⟨i, hi, rfl⟩ := List.mem_iff_getElem.mp hx
  refine ⟨i, hi, ?_⟩
  rw [List.getD_eq_getElem _ _ hi]
  simpa using hx0

end

section
variable {K : Type} [CommSemiring K] [DecidableEq K]

theorem toMv_ne_zero_of_anyNZ {D d : Nat} (hD : D ≤ 63) (hd : d ≤ D) (b : List K) (hb : b.length = psi 6 d)
    (h : anyNZ b = true) : toMv (mkTables D) d b ≠ 0 := by
  obtain ⟨i, hi, hne⟩ := anyNZ_true h
  intro h0
  have := coeff_toMv hD hd b hb (i := i) (hb ▸ hi)
  rw [h0, coeff_zero] at this
  exact hne this.symm

/-- semantic reading of `_polynomial_degree = d` on a well-formed list: block `d` is a non-zero polynomial, all higher blocks
are zero -/
theorem toMv_polynomialDegree_nat {D N : Nat} (hD : D ≤ 63) (hN : N ≤ D) (P : GPoly K) (hP : WF P N) (d : Nat)
    (h : polynomialDegree P = (d : Int)) :
    d ≤ N ∧ toMv (mkTables D) d (P.getD d []) ≠ 0 ∧ ∀ e, d < e → e ≤ N → toMv (mkTables D) e (P.getD e []) = 0 := by
  obtain ⟨h1, h2, h3⟩ := polynomialDegree_eq_nat P d h
  rw [hP.1] at h1 h3
  have hdN : d ≤ N := by omega
  refine ⟨hdN, toMv_ne_zero_of_anyNZ hD (by omega) _ (hP.2 d hdN) h2, fun e he1 he2 => ?_⟩
  exact toMv_of_anyNZ_false _ _ (h3 e he1 (by omega))

/-- semantic reading of `_polynomial_degree = -1`: every block is the zero polynomial -/
theorem toMv_polynomialDegree_neg_one {D N : Nat} (P : GPoly K) (hP : WF P N)
    (h : polynomialDegree P = -1) : ∀ e, e ≤ N → toMv (mkTables D) e (P.getD e []) = 0 := by
  intro e he
  exact toMv_of_anyNZ_false _ _ ((polynomialDegree_eq_neg_one P).mp h e (by rw [hP.1]; omega))

end

/-! ### `_get_degree` and `_polynomial_total_degree` -/

theorem psi6_lt_succ (d : Nat) : psi 6 d < psi 6 (d + 1) := by
  rw [psi_succ 5 d, psi_succ 5 (d + 1)]
  have h : Nat.choose (d + 1 + 5) 5 = Nat.choose (d + 5) 4 + Nat.choose (d + 5) 5 := Nat.choose_succ_succ (d + 5) 4
  have : 0 < Nat.choose (d + 5) 4 := Nat.choose_pos (by omega)
  omega

theorem psi6_strictMono : StrictMono (psi 6) := strictMono_nat_of_lt_succ psi6_lt_succ

theorem psi6_injective {d e : Nat} (h : psi 6 d = psi 6 e) : d = e := psi6_strictMono.injective h

/-- `_get_degree` of a block of the length of degree `d ≤ Dt` is `d` -/
theorem getDegree_of_length {K : Type} (Dt d : Nat) (hd : d ≤ Dt) (b : List K) (hb : b.length = psi 6 d) :
    getDegree Dt b = (d : Int) := by
  unfold getDegree
  have hpos := psi6_pos d
  rw [if_neg (by omega)]
  have : (List.range (Dt + 1)).find? (fun d' => psi 6 d' == b.length) = some d := by
    rw [List.find?_range_eq_some]
    refine ⟨by simp [hb], List.mem_range.mpr (by omega), fun j hj => ?_⟩
    have hne : psi 6 j ≠ b.length := by
      rw [hb]; intro h; have := psi6_injective h; omega
    simp [hne]
  rw [this]

section
variable {K : Type} [CommSemiring K] [DecidableEq K]

theorem polynomialTotalDegree_eq_topIdx {N : Nat} (Dt : Nat) (hDt : N ≤ Dt) (P : GPoly K) (hP : WF P N) :
    polynomialTotalDegree Dt P = topIdx (fun d => anyNZ (P.getD d [])) P.length := by
  rw [← foldl_max_eq_topIdx]
  unfold polynomialTotalDegree
  apply List.foldl_ext
  intro best d hd
  have hdN : d ≤ N := by have := List.mem_range.mp hd; rw [hP.1] at this; omega
  have hlen := hP.2 d hdN
  have hpos := psi6_pos d
  simp only
  rw [if_neg (by omega), if_neg (by rw [getDegree_of_length Dt d (by omega) _ hlen]; simp)]

/-- on a well-formed list `_polynomial_total_degree` and `_polynomial_degree` agree -/
theorem polynomialTotalDegree_eq_polynomialDegree {N : Nat} (Dt : Nat) (hDt : N ≤ Dt) (P : GPoly K) (hP : WF P N) :
    polynomialTotalDegree Dt P = polynomialDegree P := by
  rw [polynomialTotalDegree_eq_topIdx Dt hDt P hP, polynomialDegree_eq_topIdx]

end

end HitenModel.C06
