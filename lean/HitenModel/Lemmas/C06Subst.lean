/- Lemmas/C06Subst.lean — the substitution loop of `_substitute_linear` / `_substitute_affine` (Core/C06.lean §3, last
part) in Mathlib semantics: graded lists are power series in a grading variable (`Ser`), the term loop computes the
truncated composition `tr N (aeval V P)`. -/
import Mathlib.Algebra.MvPolynomial.Eval
import Mathlib.RingTheory.PowerSeries.Basic
import Mathlib.RingTheory.MvPolynomial.Homogeneous
import HitenModel.Lemmas.C06Poly

set_option linter.unusedSectionVars false

open MvPolynomial
namespace HitenModel.C06

/-! ### the term loop, split into its nested folds (definitionally the body of `substituteWith`) -/

section defs
variable {K : Type} [Add K] [Mul K] [OfNat K 0] [DecidableEq K] [NatCast K] [OfNat K 1] [Sub K] [Neg K]

/-- the constant one-term polynomial `coeff` the term loop starts from (`term0`) -/
def substTerm0 (maxDeg : Nat) (coeff : K) : GPoly K :=
  let z : GPoly K := polynomialZeroList maxDeg
  if (z.getD 0 []).length > 0 then z.set 0 ((z.getD 0 []).set 0 coeff) else z

/-- `coeff · Π_iv varPolys[iv]^k[iv]`, products truncated at `maxDeg` (the `iv` loop) -/
def substTerm (clmo : List (List Nat)) (σ : Nat → List (List Nat)) (varPolys : List (GPoly K)) (maxDeg : Nat) (coeff : K)
    (k : List Nat) : GPoly K :=
  (List.range 6).foldl (fun term iv =>
    let e := k.getD iv 0
    if e = 0 then term else
    polynomialMultiply clmo σ term (polynomialPower clmo σ (varPolys.getD iv []) e maxDeg) maxDeg) (substTerm0 maxDeg coeff)

/-- the `pos` loop over the slots of one block -/
def substBlock (clmo : List (List Nat)) (σ : Nat → List (List Nat)) (varPolys : List (GPoly K)) (maxDeg : Nat) (p : List K)
    (deg : Nat) (acc : GPoly K) : GPoly K :=
  (List.range p.length).foldl (fun acc pos =>
    let coeff := p.getD pos 0
    if coeff = 0 then acc else
    polynomialAddInplace acc (substTerm clmo σ varPolys maxDeg coeff (decode clmo pos deg)) 1 maxDeg) acc

/-- `poly_new` of `_substitute_linear` / `_substitute_affine` before the final `_polynomial_clean` -/
def substituteCore (clmo : List (List Nat)) (σ : Nat → List (List Nat)) (varPolys : List (GPoly K)) (P : GPoly K)
    (maxDeg : Nat) : GPoly K :=
  (List.range (maxDeg + 1)).foldl (fun acc deg =>
    let p := P.getD deg []
    if !anyNZ p then acc else substBlock clmo σ varPolys maxDeg p deg acc) (polynomialZeroList maxDeg)

/-- `substituteWith` is `polynomialClean` after the term loop — by unfolding, nothing else -/
theorem substituteWith_eq_clean_core (clmo : List (List Nat)) (σ : Nat → List (List Nat)) (small : K → Bool)
    (varPolys : List (GPoly K)) (P : GPoly K) (maxDeg : Nat) :
    substituteWith clmo σ small varPolys P maxDeg = polynomialClean small (substituteCore clmo σ varPolys P maxDeg) := rfl

end defs

/-! ### truncation is additive -/

section
variable {R : Type} [CommSemiring R]

theorem tr_add (N : Nat) (a b : PowerSeries R) : tr N (a + b) = tr N a + tr N b := by
  refine PowerSeries.ext (fun r => ?_)
  rw [map_add, coeff_tr, coeff_tr, coeff_tr, map_add]
  split
  · rfl
  · rw [add_zero]

theorem tr_zero (N : Nat) : tr N (0 : PowerSeries R) = 0 := by
  refine PowerSeries.ext (fun r => ?_)
  rw [coeff_tr, map_zero]
  split <;> rfl

theorem tr_mul_tr (N : Nat) (a b : PowerSeries R) : tr N (a * tr N b) = tr N (a * b) := by
  rw [mul_comm, tr_tr_mul, mul_comm]

theorem tr_tr_mul_tr (N : Nat) (a b : PowerSeries R) : tr N (tr N a * tr N b) = tr N (a * b) := by
  rw [tr_tr_mul, tr_mul_tr]

theorem tr_C (N : Nat) (a : R) : tr N (PowerSeries.C a) = PowerSeries.C a := by
  refine PowerSeries.ext (fun r => ?_)
  rw [coeff_tr, PowerSeries.coeff_C]
  split
  · rfl
  · rw [if_neg (by omega)]

end

/-! ### blocks: scale, one-slot blocks -/

section
variable {K : Type} [CommSemiring K]

theorem toMv_polyScale (clmo : List (List Nat)) (d : Nat) (a : K) (p : List K) :
    toMv clmo d (polyScale a p) = C a * toMv clmo d p := by
  unfold toMv polyScale
  rw [List.length_map, Finset.mul_sum]
  apply Finset.sum_congr rfl
  intro i hi
  have hi' : i < p.length := Finset.mem_range.mp hi
  rw [List.getD_eq_getElem _ _ (by rw [List.length_map]; exact hi'), List.getElem_map, List.getD_eq_getElem _ _ hi',
    C_mul_monomial]

theorem length_polyScale (a : K) (p : List K) : (polyScale a p).length = p.length := by simp [polyScale]

/-- a block with one non-zero slot is one monomial -/
theorem toMv_zeros_set (clmo : List (List Nat)) (d n e : Nat) (c : K) (he : e < n) :
    toMv clmo d ((zeros n : List K).set e c) = monomial (mono (decode clmo e d)) c := by
  unfold toMv
  rw [List.length_set, length_zeros, Finset.sum_eq_single e]
  · rw [getD_set_list _ _ _ _ _ (by rw [length_zeros]; exact he), if_pos rfl]
  · intro j _ hne
    rw [getD_set_list _ _ _ _ _ (by rw [length_zeros]; exact he), if_neg hne, getD_zeros, monomial_zero]
  · intro h; exact absurd (Finset.mem_range.mpr he) h

theorem decode_zero_zero {D : Nat} (hD : D ≤ 63) : decode (mkTables D) 0 0 = [0, 0, 0, 0, 0, 0] := by
  rw [decode_table hD (by omega) (by decide)]; decide

end

/-! ### `_polynomial_add_inplace` -/

section
variable {K : Type} [CommRing K] [DecidableEq K]

theorem length_addInplace (P Q : GPoly K) (s : K) (N : Nat) : (polynomialAddInplace P Q s N).length = P.length := by
  unfold polynomialAddInplace; rw [List.length_map, List.length_range]

/-- on well-formed operands none of the shape guards of `_polynomial_add_inplace` fires -/
theorem getD_addInplace {N : Nat} (P Q : GPoly K) (hP : WF P N) (hQ : WF Q N) (s : K) (d : Nat) (hd : d ≤ N) :
    (polynomialAddInplace P Q s N).getD d [] =
      if s = 1 then polyAdd (P.getD d []) (Q.getD d []) else if s = -1 then polySub (P.getD d []) (Q.getD d [])
      else polyAdd (P.getD d []) (polyScale s (Q.getD d [])) := by
  unfold polynomialAddInplace
  rw [List.getD_eq_getElem?_getD, List.getElem?_map, List.getElem?_range (by rw [hP.1]; omega)]
  simp only [Option.map_some, Option.getD_some]
  rw [if_pos (by rw [hP.1, hQ.1]; omega), if_neg (by rw [hP.2 d hd, hQ.2 d hd]; have := psi6_pos d; omega)]

theorem addInplace_block {N : Nat} (T : List (List Nat)) (P Q : GPoly K) (hP : WF P N) (hQ : WF Q N) (s : K) (d : Nat)
    (hd : d ≤ N) :
    ((polynomialAddInplace P Q s N).getD d []).length = psi 6 d ∧
    toMv T d ((polynomialAddInplace P Q s N).getD d []) = toMv T d (P.getD d []) + C s * toMv T d (Q.getD d []) := by
  rw [getD_addInplace P Q hP hQ s d hd]
  have hp := hP.2 d hd
  have hq := hQ.2 d hd
  split
  · rename_i h; subst h
    refine ⟨by rw [length_polyAdd, hp, hq, Nat.min_self], ?_⟩
    rw [toMv_polyAdd _ _ _ _ (by rw [hp, hq]), map_one, one_mul]
  · split
    · rename_i h; subst h
      refine ⟨by rw [length_polySub, hp, hq, Nat.min_self], ?_⟩
      rw [toMv_polySub _ _ _ _ (by rw [hp, hq]), map_neg, map_one, neg_one_mul, sub_eq_add_neg]
    · refine ⟨by rw [length_polyAdd, length_polyScale, hp, hq, Nat.min_self], ?_⟩
      rw [toMv_polyAdd _ _ _ _ (by rw [length_polyScale, hp, hq]), toMv_polyScale]

theorem WF_addInplace {N : Nat} (P Q : GPoly K) (hP : WF P N) (hQ : WF Q N) (s : K) : WF (polynomialAddInplace P Q s N) N :=
  ⟨by rw [length_addInplace]; exact hP.1, fun d hd => (addInplace_block [] P Q hP hQ s d hd).1⟩

/-- `p += scale · q` on graded lists, as series -/
theorem Ser_addInplace {N : Nat} (T : List (List Nat)) (P Q : GPoly K) (hP : WF P N) (hQ : WF Q N) (s : K) :
    Ser T N (polynomialAddInplace P Q s N) = Ser T N P + PowerSeries.C (C s) * Ser T N Q := by
  refine PowerSeries.ext (fun r => ?_)
  rw [map_add, PowerSeries.coeff_C_mul, coeff_Ser, coeff_Ser, coeff_Ser]
  split
  · rename_i hr
    exact (addInplace_block T P Q hP hQ s r hr).2
  · rw [mul_zero, add_zero]

theorem Ser_addInplace_one {N : Nat} (T : List (List Nat)) (P Q : GPoly K) (hP : WF P N) (hQ : WF Q N) :
    Ser T N (polynomialAddInplace P Q 1 N) = Ser T N P + Ser T N Q := by
  rw [Ser_addInplace T P Q hP hQ, map_one, map_one, one_mul]

/-! ### the term loop -/

theorem substTerm0_spec {D N : Nat} (hD : D ≤ 63) (hN : N ≤ D) (c : K) :
    WF (substTerm0 N c) N ∧ Ser (mkTables D) N (substTerm0 N c) = PowerSeries.C (C c) := by
  unfold substTerm0
  have h0 : ((polynomialZeroList N : GPoly K).getD 0 []).length > 0 := by
    rw [getD_zeroList N 0 (by omega), length_zeros]; decide
  simp only [if_pos h0]
  have hz := WF_zeroList (K := K) N
  constructor
  · constructor
    · rw [List.length_set]; exact hz.1
    · intro d hd
      rw [getD_set_list _ _ _ _ _ (by rw [hz.1]; omega)]
      split
      · rename_i h; subst h; rw [List.length_set]; exact hz.2 0 hd
      · exact hz.2 d hd
  · refine PowerSeries.ext (fun r => ?_)
    rw [coeff_Ser, PowerSeries.coeff_C]
    by_cases hr : r ≤ N
    · rw [if_pos hr, getD_set_list _ _ _ _ _ (by rw [hz.1]; omega)]
      by_cases h : r = 0
      · subst h
        rw [if_pos rfl, if_pos rfl, getD_zeroList N 0 (by omega), toMv_zeros_set _ _ _ _ _ (psi6_pos 0),
          decode_zero_zero hD, mono_zero_list]
        rfl
      · rw [if_neg h, if_neg h, getD_zeroList N r hr, toMv_zeros]
    · rw [if_neg hr, if_neg (by omega)]

theorem substTerm_fold {D N : Nat} (hD : D ≤ 63) (hN : N ≤ D) (σ : Nat → List (List Nat))
    (hσ : ∀ n, (σ n).flatten.Perm (List.range n)) (V : List (GPoly K)) (hV : ∀ i, i < 6 → WF (V.getD i []) N) (c : K)
    (k : List Nat) : ∀ n, n ≤ 6 →
    let Tn := (List.range n).foldl (fun term iv =>
      let e := k.getD iv 0
      if e = 0 then term else
      polynomialMultiply (mkTables D) σ term (polynomialPower (mkTables D) σ (V.getD iv []) e N) N) (substTerm0 N c)
    WF Tn N ∧ Ser (mkTables D) N Tn
      = tr N (PowerSeries.C (C c) * ∏ i ∈ Finset.range n, (Ser (mkTables D) N (V.getD i [])) ^ (k.getD i 0)) := by
  intro n
  induction n with
  | zero =>
    intro _
    simp only [List.range_zero, List.foldl_nil, Finset.range_zero, Finset.prod_empty, mul_one]
    refine ⟨(substTerm0_spec hD hN c).1, ?_⟩
    rw [(substTerm0_spec hD hN c).2, tr_C]
  | succ n ih =>
    intro hn
    have ih' := ih (by omega)
    simp only at ih' ⊢
    rw [List.range_succ, List.foldl_append]
    simp only [List.foldl_cons, List.foldl_nil]
    by_cases he : k.getD n 0 = 0
    · rw [if_pos he, Finset.prod_range_succ, he, pow_zero, mul_one]
      exact ih'
    · rw [if_neg he]
      have pw := Ser_polynomialPower hD hN σ hσ (V.getD n []) (hV n (by omega)) (k.getD n 0)
      have mm := toMv_polynomialMultiply hD hN σ hσ _ _ ih'.1 pw.1
      refine ⟨mm.1, ?_⟩
      rw [Ser_multiply hD hN σ hσ _ _ ih'.1 pw.1, ih'.2, pw.2, tr_tr_mul_tr, Finset.prod_range_succ, mul_assoc]

theorem algebraMap_ser (c : K) :
    algebraMap K (PowerSeries (MvPolynomial (Fin 6) K)) c = PowerSeries.C (C c) := by
  rw [PowerSeries.algebraMap_apply, MvPolynomial.algebraMap_eq]

/-- one term: `coeff · Π V_i^{k_i}` truncated = the truncated image of the monomial `coeff · x^k` -/
theorem Ser_substTerm {D N : Nat} (hD : D ≤ 63) (hN : N ≤ D) (σ : Nat → List (List Nat))
    (hσ : ∀ n, (σ n).flatten.Perm (List.range n)) (V : List (GPoly K)) (hV : ∀ i, i < 6 → WF (V.getD i []) N) (c : K)
    (k : List Nat) :
    WF (substTerm (mkTables D) σ V N c k) N ∧
    Ser (mkTables D) N (substTerm (mkTables D) σ V N c k)
      = tr N (aeval (fun i : Fin 6 => Ser (mkTables D) N (V.getD i.val [])) (monomial (mono k) c)) := by
  have := substTerm_fold hD hN σ hσ V hV c k 6 le_rfl
  simp only at this
  unfold substTerm
  refine ⟨this.1, ?_⟩
  rw [this.2, aeval_monomial, algebraMap_ser, Finsupp.prod_fintype _ _ (fun _ => pow_zero _),
    ← Fin.prod_univ_eq_prod_range (fun i => Ser (mkTables D) N (V.getD i []) ^ k.getD i 0) 6]
  rfl

end

/-! ### the slot loop and the degree loop -/

section
variable {K : Type} [CommRing K] [DecidableEq K]

theorem Ser_zeroList (T : List (List Nat)) (N : Nat) : Ser T N (polynomialZeroList N : GPoly K) = 0 := by
  refine PowerSeries.ext (fun r => ?_)
  rw [coeff_Ser, map_zero]
  split
  · rename_i hr; rw [getD_zeroList N r hr, toMv_zeros]
  · rfl

theorem substBlock_fold {D N : Nat} (hD : D ≤ 63) (hN : N ≤ D) (σ : Nat → List (List Nat))
    (hσ : ∀ n, (σ n).flatten.Perm (List.range n)) (V : List (GPoly K)) (hV : ∀ i, i < 6 → WF (V.getD i []) N)
    (p : List K) (deg : Nat) (acc : GPoly K) (hacc : WF acc N) : ∀ n,
    let An := (List.range n).foldl (fun acc pos =>
      let coeff := p.getD pos 0
      if coeff = 0 then acc else
      polynomialAddInplace acc (substTerm (mkTables D) σ V N coeff (decode (mkTables D) pos deg)) 1 N) acc
    WF An N ∧ Ser (mkTables D) N An = Ser (mkTables D) N acc
      + tr N (aeval (fun i : Fin 6 => Ser (mkTables D) N (V.getD i.val []))
          (∑ pos ∈ Finset.range n, monomial (mono (decode (mkTables D) pos deg)) (p.getD pos 0))) := by
  intro n
  induction n with
  | zero =>
    simp only [List.range_zero, List.foldl_nil, Finset.range_zero, Finset.sum_empty, map_zero]
    exact ⟨hacc, by rw [tr_zero, add_zero]⟩
  | succ n ih =>
    simp only at ih ⊢
    rw [List.range_succ, List.foldl_append]
    simp only [List.foldl_cons, List.foldl_nil]
    by_cases hc : p.getD n 0 = 0
    · rw [if_pos hc, Finset.sum_range_succ, hc, monomial_zero, add_zero]
      exact ih
    · rw [if_neg hc]
      have st := Ser_substTerm hD hN σ hσ V hV (p.getD n 0) (decode (mkTables D) n deg)
      refine ⟨WF_addInplace _ _ ih.1 st.1 1, ?_⟩
      rw [Ser_addInplace_one _ _ _ ih.1 st.1, ih.2, st.2, Finset.sum_range_succ, map_add, tr_add, add_assoc]

/-- all slots of one block: the accumulator grows by the truncated image of the block's polynomial -/
theorem Ser_substBlock {D N : Nat} (hD : D ≤ 63) (hN : N ≤ D) (σ : Nat → List (List Nat))
    (hσ : ∀ n, (σ n).flatten.Perm (List.range n)) (V : List (GPoly K)) (hV : ∀ i, i < 6 → WF (V.getD i []) N)
    (p : List K) (deg : Nat) (acc : GPoly K) (hacc : WF acc N) :
    WF (substBlock (mkTables D) σ V N p deg acc) N ∧
    Ser (mkTables D) N (substBlock (mkTables D) σ V N p deg acc) = Ser (mkTables D) N acc
      + tr N (aeval (fun i : Fin 6 => Ser (mkTables D) N (V.getD i.val [])) (toMv (mkTables D) deg p)) := by
  have := substBlock_fold hD hN σ hσ V hV p deg acc hacc p.length
  simp only at this
  unfold substBlock toMv
  exact this

theorem substituteCore_fold {D N : Nat} (hD : D ≤ 63) (hN : N ≤ D) (σ : Nat → List (List Nat))
    (hσ : ∀ n, (σ n).flatten.Perm (List.range n)) (V : List (GPoly K)) (hV : ∀ i, i < 6 → WF (V.getD i []) N)
    (P : GPoly K) : ∀ n,
    let Rn := (List.range n).foldl (fun acc deg =>
      let p := P.getD deg []
      if !anyNZ p then acc else substBlock (mkTables D) σ V N p deg acc) (polynomialZeroList N)
    WF Rn N ∧ Ser (mkTables D) N Rn
      = tr N (aeval (fun i : Fin 6 => Ser (mkTables D) N (V.getD i.val []))
          (∑ d ∈ Finset.range n, toMv (mkTables D) d (P.getD d []))) := by
  intro n
  induction n with
  | zero =>
    simp only [List.range_zero, List.foldl_nil, Finset.range_zero, Finset.sum_empty, map_zero]
    exact ⟨WF_zeroList N, by rw [tr_zero, Ser_zeroList]⟩
  | succ n ih =>
    simp only at ih ⊢
    rw [List.range_succ, List.foldl_append]
    simp only [List.foldl_cons, List.foldl_nil]
    by_cases hz : anyNZ (P.getD n []) = false
    · rw [if_pos (by rw [hz]; rfl), Finset.sum_range_succ, toMv_of_anyNZ_false _ n hz, add_zero]
      exact ih
    · rw [if_neg (by revert hz; cases anyNZ (P.getD n []) <;> simp)]
      have st := Ser_substBlock hD hN σ hσ V hV (P.getD n []) n _ ih.1
      refine ⟨st.1, ?_⟩
      rw [st.2, ih.2, Finset.sum_range_succ, map_add, tr_add]

/-- **the term loop of `_substitute_linear` / `_substitute_affine`** computes the truncated composition: read as series
in the grading variable, `poly_new = tr_N (P(V₀,…,V₅))` where `P = Σ_d P[d]` and `x_i ↦ Ser V_i`.  Any scheduler, any
input list `P` (blocks above `N` are not read; no shape hypothesis on `P` is needed: a slot `pos` of block `deg` is
read as the monomial `decode pos deg` whatever the block length). -/
theorem Ser_substituteCore {D N : Nat} (hD : D ≤ 63) (hN : N ≤ D) (σ : Nat → List (List Nat))
    (hσ : ∀ n, (σ n).flatten.Perm (List.range n)) (V : List (GPoly K)) (hV : ∀ i, i < 6 → WF (V.getD i []) N)
    (P : GPoly K) :
    WF (substituteCore (mkTables D) σ V P N) N ∧
    Ser (mkTables D) N (substituteCore (mkTables D) σ V P N)
      = tr N (aeval (fun i : Fin 6 => Ser (mkTables D) N (V.getD i.val []))
          (∑ d ∈ Finset.range (N + 1), toMv (mkTables D) d (P.getD d []))) :=
  substituteCore_fold hD hN σ hσ V hV P (N + 1)

end

/-! ### `_polynomial_variable`, `_linear_variable_polys` -/

section
variable {K : Type} [CommRing K] [DecidableEq K]

/-- `x_j` for a natural index (0 outside `0..5`) -/
noncomputable def Xn (j : Nat) : MvPolynomial (Fin 6) K := if h : j < 6 then X ⟨j, h⟩ else 0

theorem Xn_val (j : Fin 6) : (Xn j.val : MvPolynomial (Fin 6) K) = X j := by
  unfold Xn; rw [dif_pos j.isLt]

theorem mono_unit (j : Fin 6) : mono ((List.replicate 6 0).set j.val 1) = Finsupp.single j 1 := by
  ext i
  fin_cases j <;> fin_cases i <;> simp [List.replicate]

theorem sum_unit (j : Fin 6) : ((List.replicate 6 0).set j.val 1).sum = 1 := by
  fin_cases j <;> rfl

/-- `_polynomial_variable(j)`: well-formed, block 1 is `x_j`, all other blocks are zero (needs `max_deg ≥ 1`) -/
theorem polynomialVariable_spec {D N : Nat} (hD : D ≤ 63) (hN : N ≤ D) (h1 : 1 ≤ N) (j : Fin 6) :
    WF (polynomialVariable (mkTables D) j.val N : GPoly K) N ∧ ∀ r, r ≤ N →
      toMv (mkTables D) r ((polynomialVariable (mkTables D) j.val N : GPoly K).getD r []) = if r = 1 then X j else 0 := by
  have hl : ((List.replicate 6 0).set j.val 1).length = 6 := by simp
  obtain ⟨e, he, henc, hdec⟩ := encode_of_degree hD (d := 1) (by omega) hl (sum_unit j)
  have hz := WF_zeroList (K := K) N
  have hz1 : (polynomialZeroList N : GPoly K).getD 1 [] = zeros (psi 6 1) := getD_zeroList N 1 h1
  unfold polynomialVariable
  simp only
  rw [if_pos ⟨by rw [hz.1]; omega, by rw [hz1, length_zeros]; exact psi6_pos 1⟩, henc]
  simp only
  rw [if_pos (by rw [hz1, length_zeros]; exact he), hz1]
  have hi : 1 < (polynomialZeroList N : GPoly K).length := by rw [hz.1]; omega
  constructor
  · constructor
    · rw [List.length_set]; exact hz.1
    · intro d hd
      rw [getD_set_list _ _ _ _ _ hi]
      split
      · rename_i h; subst h; rw [List.length_set, length_zeros]
      · exact hz.2 d hd
  · intro r hr
    rw [getD_set_list _ _ _ _ _ hi]
    by_cases h : r = 1
    · subst h
      rw [if_pos rfl, if_pos rfl, toMv_zeros_set _ _ _ _ _ he, hdec, mono_unit]
      rfl
    · rw [if_neg h, if_neg h, getD_zeroList N r hr, toMv_zeros]

theorem polynomialVariable_spec_nat {D N : Nat} (hD : D ≤ 63) (hN : N ≤ D) (h1 : 1 ≤ N) (j : Nat) (hj : j < 6) :
    WF (polynomialVariable (mkTables D) j N : GPoly K) N ∧ ∀ r, r ≤ N →
      toMv (mkTables D) r ((polynomialVariable (mkTables D) j N : GPoly K).getD r []) = if r = 1 then Xn j else 0 := by
  have := polynomialVariable_spec (K := K) hD hN h1 ⟨j, hj⟩
  rw [← Xn_val] at this
  exact this

/-- the linear form `Σ_j M[i][j] · x_j` of row `i` of a coefficient table (missing entries are 0) -/
noncomputable def linForm (M : List (List K)) (i : Nat) : MvPolynomial (Fin 6) K :=
  ∑ j : Fin 6, C ((M.getD i []).getD j.val 0) * X j

theorem linear_fold {D N : Nat} (hD : D ≤ 63) (hN : N ≤ D) (h1 : 1 ≤ N) (M : List (List K)) (i : Nat) : ∀ n, n ≤ 6 →
    let Ln := (List.range n).foldl (fun acc j =>
      let cij := (M.getD i []).getD j 0
      if cij = 0 then acc else polynomialAddInplace acc (polynomialVariable (mkTables D) j N) cij N) (polynomialZeroList N)
    WF Ln N ∧ ∀ r, r ≤ N → toMv (mkTables D) r (Ln.getD r [])
      = if r = 1 then ∑ j ∈ Finset.range n, C ((M.getD i []).getD j 0) * Xn j else 0 := by
  intro n
  induction n with
  | zero =>
    intro _
    simp only [List.range_zero, List.foldl_nil, Finset.range_zero, Finset.sum_empty, ite_self]
    exact ⟨WF_zeroList N, fun r hr => by rw [getD_zeroList N r hr, toMv_zeros]⟩
  | succ n ih =>
    intro hn
    have ih' := ih (by omega)
    simp only at ih' ⊢
    rw [List.range_succ, List.foldl_append]
    simp only [List.foldl_cons, List.foldl_nil]
    by_cases hc : (M.getD i []).getD n 0 = 0
    · rw [if_pos hc]
      refine ⟨ih'.1, fun r hr => ?_⟩
      rw [ih'.2 r hr, Finset.sum_range_succ, hc, map_zero, zero_mul, add_zero]
    · rw [if_neg hc]
      have pv := polynomialVariable_spec_nat (K := K) hD hN h1 n (by omega)
      refine ⟨WF_addInplace _ _ ih'.1 pv.1 _, fun r hr => ?_⟩
      rw [(addInplace_block (mkTables D) _ _ ih'.1 pv.1 _ r hr).2, ih'.2 r hr, pv.2 r hr, Finset.sum_range_succ]
      split
      · rfl
      · rw [mul_zero, add_zero]

theorem length_linearVariablePolys (T : List (List Nat)) (M : List (List K)) (N : Nat) :
    (linearVariablePolys T M N).length = 6 := by
  unfold linearVariablePolys; rw [List.length_map, List.length_range]

/-- **`_linear_variable_polys`**: `L[i]` is well-formed, its block 1 is the linear form `Σ_j M[i][j]·x_j` and every other
block is zero; as a series in the grading variable `t` it is `(Σ_j M[i][j]·x_j) · t`.  (`max_deg ≥ 1` is needed: with
`max_deg = 0` there is no block 1 and `_polynomial_variable` returns the zero polynomial.) -/
theorem Ser_linearVariablePolys {D N : Nat} (hD : D ≤ 63) (hN : N ≤ D) (h1 : 1 ≤ N) (M : List (List K)) (i : Nat) (hi : i < 6) :
    WF ((linearVariablePolys (mkTables D) M N).getD i []) N ∧
    (∀ r, r ≤ N → toMv (mkTables D) r (((linearVariablePolys (mkTables D) M N).getD i []).getD r [])
      = if r = 1 then linForm M i else 0) ∧
    Ser (mkTables D) N ((linearVariablePolys (mkTables D) M N).getD i []) = PowerSeries.C (linForm M i) * PowerSeries.X := by
  have hf := linear_fold hD hN h1 M i 6 le_rfl
  simp only at hf
  have e : (linearVariablePolys (mkTables D) M N).getD i [] = (List.range 6).foldl (fun acc j =>
      let cij := (M.getD i []).getD j 0
      if cij = 0 then acc else polynomialAddInplace acc (polynomialVariable (mkTables D) j N) cij N) (polynomialZeroList N) := by
    unfold linearVariablePolys
    rw [List.getD_eq_getElem?_getD, List.getElem?_map, List.getElem?_range hi]
    rfl
  have hsum : ∑ j ∈ Finset.range 6, C ((M.getD i []).getD j 0) * (Xn j : MvPolynomial (Fin 6) K) = linForm M i := by
    unfold linForm
    rw [← Fin.sum_univ_eq_sum_range (fun j => C ((M.getD i []).getD j 0) * (Xn j : MvPolynomial (Fin 6) K)) 6]
    apply Finset.sum_congr rfl
    intro j _
    rw [Xn_val]
  rw [e]
  rw [hsum] at hf
  refine ⟨hf.1, hf.2, ?_⟩
  refine PowerSeries.ext (fun r => ?_)
  rw [coeff_Ser, PowerSeries.coeff_C_mul, PowerSeries.coeff_X]
  by_cases hr : r ≤ N
  · rw [if_pos hr, hf.2 r hr]
    split
    · rw [mul_one]
    · rw [mul_zero]
  · rw [if_neg hr, if_neg (by omega), mul_zero]

end

/-! ### `_polynomial_clean` -/

section
variable {K : Type} [OfNat K 0]

theorem length_clean (small : K → Bool) (P : GPoly K) : (polynomialClean small P).length = P.length := by
  unfold polynomialClean; rw [List.length_map]

theorem getD_clean (small : K → Bool) (P : GPoly K) (d : Nat) :
    (polynomialClean small P).getD d [] = (P.getD d []).map fun c => if small c then 0 else c := by
  unfold polynomialClean
  exact List.getD_map P [] (n := d) (fun b : List K => b.map fun c => if small c then 0 else c)

/-- `_polynomial_clean`: every coefficient is kept, or replaced by 0 when `small` (`|c| ≤ tol`) accepts it -/
theorem clean_coeff (small : K → Bool) (P : GPoly K) (d i : Nat) :
    ((polynomialClean small P).getD d []).getD i 0
      = if small ((P.getD d []).getD i 0) then 0 else (P.getD d []).getD i 0 := by
  rw [getD_clean]
  have := List.getD_map (P.getD d []) (0 : K) (n := i) (fun c => if small c then 0 else c)
  rw [ite_self] at this
  exact this

theorem length_clean_block (small : K → Bool) (P : GPoly K) (d : Nat) :
    ((polynomialClean small P).getD d []).length = (P.getD d []).length := by
  rw [getD_clean, List.length_map]

theorem clean_none (P : GPoly K) : polynomialClean (fun _ => false) P = P := by
  unfold polynomialClean
  simp

end

/-! ### linear substitution -/

section
variable {K : Type} [CommRing K] [DecidableEq K]

theorem WF_clean (small : K → Bool) (P : GPoly K) (N : Nat) (hP : WF P N) : WF (polynomialClean small P) N :=
  ⟨by rw [length_clean]; exact hP.1, fun d hd => by rw [length_clean_block]; exact hP.2 d hd⟩

theorem sum_fin_getD {k : List Nat} (hk : k.length = 6) : ∑ i : Fin 6, k.getD i.val 0 = k.sum := by
  obtain ⟨a0, a1, a2, a3, a4, a5, rfl⟩ := length_six hk
  rw [Fin.sum_univ_six]
  simp
  omega

/-- a monomial of total degree `d` composed with `x_i ↦ t·L_i` is `t^d` times the monomial composed with `L` -/
theorem aeval_scaled_monomial (L : Fin 6 → MvPolynomial (Fin 6) K) (s : Fin 6 →₀ ℕ) (a : K) (d : Nat) (hs : ∑ i, s i = d) :
    aeval (fun i => PowerSeries.C (L i) * PowerSeries.X) (monomial s a)
      = PowerSeries.C (aeval L (monomial s a)) * PowerSeries.X ^ d := by
  rw [aeval_monomial, aeval_monomial, algebraMap_ser, Finsupp.prod_fintype _ _ (fun _ => pow_zero _),
    Finsupp.prod_fintype _ _ (fun _ => pow_zero _)]
  simp only [mul_pow]
  rw [Finset.prod_mul_distrib, Finset.prod_pow_eq_pow_sum, hs, map_mul, map_prod, MvPolynomial.algebraMap_eq]
  simp only [map_pow]
  rw [mul_assoc]

theorem aeval_scaled_block {D d : Nat} (hD : D ≤ 63) (hd : d ≤ D) (L : Fin 6 → MvPolynomial (Fin 6) K) (p : List K)
    (hp : p.length = psi 6 d) :
    aeval (fun i => PowerSeries.C (L i) * PowerSeries.X) (toMv (mkTables D) d p)
      = PowerSeries.C (aeval L (toMv (mkTables D) d p)) * PowerSeries.X ^ d := by
  unfold toMv
  simp only [map_sum, Finset.sum_mul]
  apply Finset.sum_congr rfl
  intro i hi
  have hi' : i < psi 6 d := by rw [← hp]; exact Finset.mem_range.mp hi
  refine aeval_scaled_monomial L _ _ d ?_
  simp only [mono_apply]
  rw [sum_fin_getD (length_decode _ _ _), sum_decode hD hd hi']

/-- **`_substitute_linear`, term loop**: block `r ≤ N` of the result is block `r` of the input composed with the linear
map, `P_r(M·x)` (`aeval` = replace `x_i` by `Σ_j M[i][j]·x_j`) — for every scheduler, with all shortcuts of the loop -/
theorem substituteCore_linear_block {D N : Nat} (hD : D ≤ 63) (hN : N ≤ D) (h1 : 1 ≤ N) (σ : Nat → List (List Nat))
    (hσ : ∀ n, (σ n).flatten.Perm (List.range n)) (M : List (List K)) (P : GPoly K) (hP : WF P N) :
    WF (substituteCore (mkTables D) σ (linearVariablePolys (mkTables D) M N) P N) N ∧ ∀ r, r ≤ N →
    toMv (mkTables D) r ((substituteCore (mkTables D) σ (linearVariablePolys (mkTables D) M N) P N).getD r [])
      = aeval (fun i : Fin 6 => linForm M i.val) (toMv (mkTables D) r (P.getD r [])) := by
  have hV : ∀ i, i < 6 → WF ((linearVariablePolys (mkTables D) M N).getD i []) N :=
    fun i hi => (Ser_linearVariablePolys hD hN h1 M i hi).1
  have core := Ser_substituteCore hD hN σ hσ _ hV P
  refine ⟨core.1, fun r hr => ?_⟩
  have hc := congrArg (PowerSeries.coeff r) core.2
  rw [coeff_Ser, if_pos hr, coeff_tr, if_pos hr] at hc
  rw [hc]
  have hF : (fun i : Fin 6 => Ser (mkTables D) N ((linearVariablePolys (mkTables D) M N).getD i.val []))
      = fun i : Fin 6 => PowerSeries.C (linForm M i.val) * PowerSeries.X :=
    funext fun i => (Ser_linearVariablePolys hD hN h1 M i.val i.isLt).2.2
  rw [hF, map_sum, map_sum, Finset.sum_eq_single r]
  · rw [aeval_scaled_block hD (by omega) _ _ (hP.2 r hr), PowerSeries.coeff_C_mul_X_pow, if_pos rfl]
  · intro d hd hne
    have hd' : d ≤ N := by have := Finset.mem_range.mp hd; omega
    rw [aeval_scaled_block hD (by omega) _ _ (hP.2 d hd'), PowerSeries.coeff_C_mul_X_pow, if_neg (Ne.symm hne)]
  · intro h; exact absurd (Finset.mem_range.mpr (by omega)) h

end

/-! ### affine substitution -/

section
variable {K : Type} [CommRing K] [DecidableEq K]

theorem length_affineVariablePolys (T : List (List Nat)) (M : List (List K)) (sh : List K) (N : Nat) :
    (affineVariablePolys T M sh N).length = 6 := by
  unfold affineVariablePolys; simp only; rw [List.length_map, List.length_range]

/-- **`_linear_affine_variable_polys`**: `A[i] = shifts[i] + Σ_j M[i][j]·x_j` — block 0 is the constant `shifts[i]`,
block 1 the linear form, all other blocks zero; as a series in the grading variable: `shifts[i] + (Σ_j M[i][j]·x_j)·t` -/
theorem Ser_affineVariablePolys {D N : Nat} (hD : D ≤ 63) (hN : N ≤ D) (h1 : 1 ≤ N) (M : List (List K)) (sh : List K)
    (i : Nat) (hi : i < 6) :
    WF ((affineVariablePolys (mkTables D) M sh N).getD i []) N ∧
    (∀ r, r ≤ N → toMv (mkTables D) r (((affineVariablePolys (mkTables D) M sh N).getD i []).getD r [])
      = if r = 0 then C (sh.getD i 0) else if r = 1 then linForm M i else 0) ∧
    Ser (mkTables D) N ((affineVariablePolys (mkTables D) M sh N).getD i [])
      = PowerSeries.C (C (sh.getD i 0)) + PowerSeries.C (linForm M i) * PowerSeries.X := by
  obtain ⟨hw, hb, _⟩ := Ser_linearVariablePolys hD hN h1 M i hi
  have key : WF ((affineVariablePolys (mkTables D) M sh N).getD i []) N ∧
      (∀ r, r ≤ N → toMv (mkTables D) r (((affineVariablePolys (mkTables D) M sh N).getD i []).getD r [])
        = if r = 0 then C (sh.getD i 0) else if r = 1 then linForm M i else 0) := by
    have e : (affineVariablePolys (mkTables D) M sh N).getD i [] =
        (let Li := (linearVariablePolys (mkTables D) M N).getD i []
         let δ := sh.getD i 0
         if δ = 0 then Li
         else if Li.length > 0 ∧ (Li.getD 0 []).length > 0 then Li.set 0 (addAt (Li.getD 0 []) 0 δ) else Li) := by
      unfold affineVariablePolys
      simp only
      rw [List.getD_eq_getElem?_getD, List.getElem?_map, List.getElem?_range hi]
      rfl
    rw [e]
    simp only
    have hl0 := hw.2 0 (by omega)
    have hpos : 0 < psi 6 0 := psi6_pos 0
    by_cases hδ : sh.getD i 0 = 0
    · rw [if_pos hδ, hδ, map_zero]
      refine ⟨hw, fun r hr => ?_⟩
      rw [hb r hr]
      by_cases h0 : r = 0
      · subst h0; rw [if_neg (by omega), if_pos rfl]
      · rw [if_neg h0]
    · rw [if_neg hδ, if_pos ⟨by rw [hw.1]; omega, by rw [hl0]; exact hpos⟩]
      have hlen : 0 < ((linearVariablePolys (mkTables D) M N).getD i []).length := by rw [hw.1]; omega
      constructor
      · constructor
        · rw [List.length_set]; exact hw.1
        · intro d hd
          rw [getD_set_list _ _ _ _ _ hlen]
          split
          · rename_i h; subst h; rw [length_addAt]; exact hl0
          · exact hw.2 d hd
      · intro r hr
        rw [getD_set_list _ _ _ _ _ hlen]
        by_cases h0 : r = 0
        · subst h0
          rw [if_pos rfl, if_pos rfl, toMv_addAt _ _ _ _ _ (by rw [hl0]; exact hpos), hb 0 hr, if_neg (by omega), zero_add]
          unfold term
          simp only
          rw [decode_zero_zero hD, mono_zero_list]
          rfl
        · rw [if_neg h0, if_neg h0, hb r hr]
  refine ⟨key.1, key.2, ?_⟩
  refine PowerSeries.ext (fun r => ?_)
  rw [coeff_Ser, map_add, PowerSeries.coeff_C_mul, PowerSeries.coeff_X, PowerSeries.coeff_C]
  by_cases hr : r ≤ N
  · rw [if_pos hr, key.2 r hr]
    by_cases h0 : r = 0
    · subst h0; rw [if_pos rfl, if_pos rfl, if_neg (by omega), mul_zero, add_zero]
    · rw [if_neg h0, if_neg h0, zero_add]
      split
      · rw [mul_one]
      · rw [mul_zero]
  · rw [if_neg hr, if_neg (by omega), if_neg (by omega), mul_zero, add_zero]

/-- **`_substitute_affine`, term loop**: in the grading variable `t`, the result is the truncation at `t^N` of
`P(δ + t·M·x)` (each `x_i` replaced by `shifts[i] + t·Σ_j M[i][j]·x_j`); block `r` of the result is the coefficient
of `t^r`, i.e. the part of `P(M·x + δ)` that is homogeneous of degree `r` in `x`. -/
theorem Ser_substituteCore_affine {D N : Nat} (hD : D ≤ 63) (hN : N ≤ D) (h1 : 1 ≤ N) (σ : Nat → List (List Nat))
    (hσ : ∀ n, (σ n).flatten.Perm (List.range n)) (M : List (List K)) (sh : List K) (P : GPoly K) :
    WF (substituteCore (mkTables D) σ (affineVariablePolys (mkTables D) M sh N) P N) N ∧
    Ser (mkTables D) N (substituteCore (mkTables D) σ (affineVariablePolys (mkTables D) M sh N) P N)
      = tr N (aeval (fun i : Fin 6 => PowerSeries.C (C (sh.getD i.val 0)) + PowerSeries.C (linForm M i.val) * PowerSeries.X)
          (∑ d ∈ Finset.range (N + 1), toMv (mkTables D) d (P.getD d []))) := by
  have hV : ∀ i, i < 6 → WF ((affineVariablePolys (mkTables D) M sh N).getD i []) N :=
    fun i hi => (Ser_affineVariablePolys hD hN h1 M sh i hi).1
  have core := Ser_substituteCore hD hN σ hσ _ hV P
  have hF : (fun i : Fin 6 => Ser (mkTables D) N ((affineVariablePolys (mkTables D) M sh N).getD i.val []))
      = fun i : Fin 6 => PowerSeries.C (C (sh.getD i.val 0)) + PowerSeries.C (linForm M i.val) * PowerSeries.X :=
    funext fun i => (Ser_affineVariablePolys hD hN h1 M sh i.val i.isLt).2.2
  rw [hF] at core
  exact core

end

/-! ### the full functions (term loop + clean) -/

section
variable {K : Type} [CommRing K] [DecidableEq K]

/-- slot `i` of block `r` of `_substitute_linear(P, M)`: the coefficient `c` of the monomial `decode i r` in `P_r(M·x)`,
or `0` if `small c` (i.e. `|c| ≤ tol`) -/
theorem substituteLinear_coeff {D N : Nat} (hD : D ≤ 63) (hN : N ≤ D) (h1 : 1 ≤ N) (σ : Nat → List (List Nat))
    (hσ : ∀ n, (σ n).flatten.Perm (List.range n)) (small : K → Bool) (M : List (List K)) (P : GPoly K) (hP : WF P N) :
    WF (substituteLinear (mkTables D) σ small P M N) N ∧ ∀ r, r ≤ N → ∀ i, i < psi 6 r →
      ((substituteLinear (mkTables D) σ small P M N).getD r []).getD i 0
        = (let c := coeff (mono (decode (mkTables D) i r))
              (aeval (fun i : Fin 6 => linForm M i.val) (toMv (mkTables D) r (P.getD r [])))
           if small c then 0 else c) := by
  have core := substituteCore_linear_block hD hN h1 σ hσ M P hP
  unfold substituteLinear
  rw [substituteWith_eq_clean_core]
  refine ⟨WF_clean small _ N core.1, fun r hr i hi => ?_⟩
  rw [clean_coeff, ← coeff_toMv hD (by omega : r ≤ D) _ (core.1.2 r hr) hi, core.2 r hr]

/-- without cleaning (`tol` below every non-zero magnitude) `_substitute_linear` is exact -/
theorem substituteLinear_exact {D N : Nat} (hD : D ≤ 63) (hN : N ≤ D) (h1 : 1 ≤ N) (σ : Nat → List (List Nat))
    (hσ : ∀ n, (σ n).flatten.Perm (List.range n)) (M : List (List K)) (P : GPoly K) (hP : WF P N) (r : Nat) (hr : r ≤ N) :
    toMv (mkTables D) r ((substituteLinear (mkTables D) σ (fun _ => false) P M N).getD r [])
      = aeval (fun i : Fin 6 => linForm M i.val) (toMv (mkTables D) r (P.getD r [])) := by
  unfold substituteLinear
  rw [substituteWith_eq_clean_core, clean_none]
  exact (substituteCore_linear_block hD hN h1 σ hσ M P hP).2 r hr

end

/-! ### the grading variable picks homogeneous components -/

section
variable {K : Type} [CommRing K] [DecidableEq K]

/-- `x_j ↦ t·x_j` -/
noncomputable def gradeHom : MvPolynomial (Fin 6) K →ₐ[K] PowerSeries (MvPolynomial (Fin 6) K) :=
  aeval (fun j => PowerSeries.C (X j) * PowerSeries.X)

/-- the coefficient of `t^r` in `Q(t·x)` is the homogeneous component of degree `r` of `Q` -/
theorem coeff_gradeHom (Q : MvPolynomial (Fin 6) K) (r : Nat) :
    PowerSeries.coeff r (gradeHom Q) = homogeneousComponent r Q := by
  induction Q using MvPolynomial.induction_on' with
  | monomial s a =>
    unfold gradeHom
    rw [aeval_scaled_monomial X s a _ rfl, aeval_X_left_apply, PowerSeries.coeff_C_mul_X_pow,
      homogeneousComponent_of_mem ((mem_homogeneousSubmodule _ _).mpr (isHomogeneous_monomial a (Finsupp.degree_eq_sum s)))]
  | add p q hp hq => rw [map_add, map_add, map_add, hp, hq]

theorem gradeHom_homogeneous (Q : MvPolynomial (Fin 6) K) (d : Nat) (hQ : Q.IsHomogeneous d) :
    gradeHom Q = PowerSeries.C Q * PowerSeries.X ^ d := by
  refine PowerSeries.ext (fun r => ?_)
  rw [coeff_gradeHom, homogeneousComponent_of_mem ((mem_homogeneousSubmodule _ _).mpr hQ), PowerSeries.coeff_C_mul_X_pow]

theorem linForm_homogeneous (M : List (List K)) (i : Nat) : (linForm M i).IsHomogeneous 1 := by
  unfold linForm
  exact IsHomogeneous.sum _ _ _ (fun j _ => isHomogeneous_C_mul_X _ _)

theorem gradeHom_affine (δ : K) (L : MvPolynomial (Fin 6) K) (hL : L.IsHomogeneous 1) :
    gradeHom (C δ + L) = PowerSeries.C (C δ) + PowerSeries.C L * PowerSeries.X := by
  rw [map_add, gradeHom_homogeneous L 1 hL, pow_one]
  congr 1
  unfold gradeHom
  rw [aeval_C, algebraMap_ser]

/-- **`_substitute_affine`, term loop, block form**: block `r ≤ N` of the result is the homogeneous component of degree
`r` of `P(M·x + δ)` where `P = Σ_{d ≤ N} P[d]` — for every scheduler, any input list -/
theorem substituteCore_affine_block {D N : Nat} (hD : D ≤ 63) (hN : N ≤ D) (h1 : 1 ≤ N) (σ : Nat → List (List Nat))
    (hσ : ∀ n, (σ n).flatten.Perm (List.range n)) (M : List (List K)) (sh : List K) (P : GPoly K) (r : Nat) (hr : r ≤ N) :
    toMv (mkTables D) r ((substituteCore (mkTables D) σ (affineVariablePolys (mkTables D) M sh N) P N).getD r [])
      = homogeneousComponent r (aeval (fun i : Fin 6 => C (sh.getD i.val 0) + linForm M i.val)
          (∑ d ∈ Finset.range (N + 1), toMv (mkTables D) d (P.getD d []))) := by
  have core := Ser_substituteCore_affine hD hN h1 σ hσ M sh P
  have hc := congrArg (PowerSeries.coeff r) core.2
  rw [coeff_Ser, if_pos hr, coeff_tr, if_pos hr] at hc
  have hF : (fun i : Fin 6 => PowerSeries.C (C (sh.getD i.val 0)) + PowerSeries.C (linForm M i.val) * PowerSeries.X)
      = fun i : Fin 6 => gradeHom (C (sh.getD i.val 0) + linForm M i.val) :=
    funext fun i => (gradeHom_affine _ _ (linForm_homogeneous M i.val)).symm
  rw [hc, hF, ← comp_aeval_apply, coeff_gradeHom]

end

/-! ### affine substitution loses nothing: the blocks `0..N` add up to `P(M·x + δ)` -/

section
variable {K : Type} [CommRing K] [DecidableEq K]

theorem totalDegree_aeval_monomial_le (G : Fin 6 → MvPolynomial (Fin 6) K) (hG : ∀ i, (G i).totalDegree ≤ 1)
    (s : Fin 6 →₀ ℕ) (a : K) : (aeval G (monomial s a)).totalDegree ≤ ∑ i, s i := by
  rw [aeval_monomial, Finsupp.prod_fintype _ _ (fun _ => pow_zero _), MvPolynomial.algebraMap_eq]
  refine (totalDegree_mul _ _).trans ?_
  rw [totalDegree_C, zero_add]
  refine (totalDegree_finsetProd _ _).trans ?_
  apply Finset.sum_le_sum
  intro i _
  refine (totalDegree_pow _ _).trans ?_
  calc s i * (G i).totalDegree ≤ s i * 1 := Nat.mul_le_mul_left _ (hG i)
    _ = s i := mul_one _

theorem totalDegree_aeval_block_le {D d : Nat} (hD : D ≤ 63) (hd : d ≤ D) (G : Fin 6 → MvPolynomial (Fin 6) K)
    (hG : ∀ i, (G i).totalDegree ≤ 1) (p : List K) (hp : p.length = psi 6 d) :
    (aeval G (toMv (mkTables D) d p)).totalDegree ≤ d := by
  unfold toMv
  rw [map_sum]
  apply totalDegree_finsetSum_le
  intro i hi
  have hi' : i < psi 6 d := by rw [← hp]; exact Finset.mem_range.mp hi
  refine (totalDegree_aeval_monomial_le G hG _ _).trans ?_
  simp only [mono_apply]
  rw [sum_fin_getD (length_decode _ _ _), sum_decode hD hd hi']

/-- **`_substitute_affine`, term loop, total form**: for a well-formed input the blocks `0..N` of the result add up to
`P(M·x + δ)` exactly (the truncation at `max_deg` removes nothing, an affine map does not raise the degree) -/
theorem substituteCore_affine_total {D N : Nat} (hD : D ≤ 63) (hN : N ≤ D) (h1 : 1 ≤ N) (σ : Nat → List (List Nat))
    (hσ : ∀ n, (σ n).flatten.Perm (List.range n)) (M : List (List K)) (sh : List K) (P : GPoly K) (hP : WF P N) :
    ∑ r ∈ Finset.range (N + 1),
        toMv (mkTables D) r ((substituteCore (mkTables D) σ (affineVariablePolys (mkTables D) M sh N) P N).getD r [])
      = aeval (fun i : Fin 6 => C (sh.getD i.val 0) + linForm M i.val)
          (∑ d ∈ Finset.range (N + 1), toMv (mkTables D) d (P.getD d [])) := by
  have hG : ∀ i : Fin 6, (C (sh.getD i.val 0) + linForm M i.val : MvPolynomial (Fin 6) K).totalDegree ≤ 1 := by
    intro i
    refine (totalDegree_add _ _).trans (max_le ?_ (linForm_homogeneous M i.val).totalDegree_le)
    rw [totalDegree_C]; omega
  have hdeg : (aeval (fun i : Fin 6 => C (sh.getD i.val 0) + linForm M i.val)
      (∑ d ∈ Finset.range (N + 1), toMv (mkTables D) d (P.getD d []))).totalDegree ≤ N := by
    rw [map_sum]
    apply totalDegree_finsetSum_le
    intro d hd
    have hd' : d ≤ N := by have := Finset.mem_range.mp hd; omega
    exact (totalDegree_aeval_block_le hD (by omega) _ hG _ (hP.2 d hd')).trans hd'
  rw [Finset.sum_congr rfl (fun r hr => substituteCore_affine_block hD hN h1 σ hσ M sh P r
    (by have := Finset.mem_range.mp hr; omega))]
  conv_rhs => rw [← sum_homogeneousComponent (aeval (fun i : Fin 6 => C (sh.getD i.val 0) + linForm M i.val)
      (∑ d ∈ Finset.range (N + 1), toMv (mkTables D) d (P.getD d [])))]
  symm
  apply Finset.sum_subset (Finset.range_subset_range.mpr (by omega))
  intro r _ hr
  apply homogeneousComponent_eq_zero
  rw [Finset.mem_range] at hr
  omega

end

section
variable {K : Type} [CommRing K] [DecidableEq K]

/-- slot `i` of block `r` of `_substitute_affine(P, M, δ)`: the coefficient `c` of the monomial `decode i r` in
`P(M·x + δ)` (that monomial has degree `r`), or `0` if `small c` -/
theorem substituteAffine_coeff {D N : Nat} (hD : D ≤ 63) (hN : N ≤ D) (h1 : 1 ≤ N) (σ : Nat → List (List Nat))
    (hσ : ∀ n, (σ n).flatten.Perm (List.range n)) (small : K → Bool) (M : List (List K)) (sh : List K) (P : GPoly K) :
    WF (substituteAffine (mkTables D) σ small P M sh N) N ∧ ∀ r, r ≤ N → ∀ i, i < psi 6 r →
      ((substituteAffine (mkTables D) σ small P M sh N).getD r []).getD i 0
        = (let c := coeff (mono (decode (mkTables D) i r))
              (aeval (fun i : Fin 6 => C (sh.getD i.val 0) + linForm M i.val)
                (∑ d ∈ Finset.range (N + 1), toMv (mkTables D) d (P.getD d [])))
           if small c then 0 else c) := by
  have core := Ser_substituteCore_affine hD hN h1 σ hσ M sh P
  unfold substituteAffine
  rw [substituteWith_eq_clean_core]
  refine ⟨WF_clean small _ N core.1, fun r hr i hi => ?_⟩
  have hdeg : (mono (decode (mkTables D) i r)).degree = r := by
    rw [Finsupp.degree_eq_sum]
    simp only [mono_apply]
    rw [sum_fin_getD (length_decode _ _ _), sum_decode hD (by omega) hi]
  rw [clean_coeff, ← coeff_toMv hD (by omega : r ≤ D) _ (core.1.2 r hr) hi,
    substituteCore_affine_block hD hN h1 σ hσ M sh P r hr, coeff_homogeneousComponent, if_pos hdeg]

end

end HitenModel.C06
