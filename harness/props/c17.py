"""C17 — Hamiltonian fast paths agree with the generic integration path.

T-trace / T-table (Gen/C17.lean, regenerated on every run): the live index maps `Q_POLY_INDICES`/`P_POLY_INDICES`, the
wiring of `_hamiltonian_rhs`, `_eval_dH_dQ`, `_eval_dH_dP`, `_construct_6d_eval_point`, `_eval_hamiltonian_derivative`
(which Jacobian entry is evaluated at which point and lands in which output component with which sign — obtained by
*executing* the current function objects on symbolic data with `_polynomial_evaluate` rebound to a recorder), and the
canonical traces (polynomial normal forms over a recording vector field) of every straight-line twin pair of
`integrators/rk.py`: the three stepping kernels for every tableau, the fixed-grid drivers, the DOP853 dense-cache builders.
Props/C17.lean proves, for every polynomial over every commutative ring and every state, that the traced right-hand side is
(dH/dP, -dH/dQ) with Mathlib's formal partial derivative, that the separate evaluators agree with it, the real-part lemma
for complex coefficients, the oracle-program congruence theorem and (decide) that the twin traces coincide.
T-corr: Core/C17.lean (monomial-list polynomials over Q, packed layout, traced wiring) against the real
`_polynomial_jacobian`, `_polynomial_evaluate`, `_hamiltonian_rhs`, `_eval_dH_dQ/_eval_dH_dP`, `_eval_hamiltonian_derivative`,
`hamsys.dH_dQ/dH_dP` — exact on integer-coefficient polynomials at dyadic states; the fixed-grid oracle-program model against
`_integrate_fixed_rk(_ham)` to 1e-12.
Twins that are loops with data-dependent control (adaptive drivers, event drivers, refinement) are tied by (a) oracle
transcripts: both twins' current bodies are executed with the same recording vector field / event function and must issue
the same queries and return the same values bit for bit, and (b) bit-for-bit differential execution of the compiled public
`integrate` on a polynomial Hamiltonian system vs the same Hamilton equations supplied as a generic vector field, for every
integrator family, order, tolerance, event configuration and direction.
Failing-input search: the same differential executions (a concrete H, state, grid on which the two paths differ), an
independent gradient of the polynomial for the rhs, and the evaluability of `hamsys.rhs` / `_propagate_dynsys`."""
from __future__ import annotations

import math
import types as _types
from fractions import Fraction

import numpy as np

import lean_emit as E
import tracer as T

F = Fraction
PROPS = ["HitenModel.Props.C17"]
SRC = ["HitenModel.Props.C17", "HitenModel.Gen.C17", "HitenModel.Core.C17", "HitenModel.Lemmas.C17"]
DIM = 2          # dimension of the recording vector field in the twin traces
MODEL = {}


class ExtractError(Exception):
    pass


def broken(ctx, name, msg):
    ctx.broken.append((name, msg))
    ctx.obligations[name] = False


# =====================================================================================================
# 1. tracing the wiring of the right-hand side and of the separate evaluators
# =====================================================================================================

class _SymArr(np.ndarray):
    """object ndarray whose `.astype(np.complex128)` keeps the symbols"""

    def astype(self, *a, **k):
        return self.copy().view(_SymArr)


def _symarr(vals):
    a = np.empty(len(vals), dtype=object)
    for i, v in enumerate(vals):
        a[i] = v
    return a.view(_SymArr)


class _Val:
    """value returned by the recorded `_polynomial_evaluate`: `.real` is the recorded symbol, `.imag` must not be used"""

    def __init__(self, s):
        self.real = s

    @property
    def imag(self):
        raise ExtractError("imaginary part of a polynomial value is used")


class _Jac:
    """stand-in for the Jacobian list: indexing yields a tagged entry"""

    def __init__(self, n):
        self.n = n

    def __len__(self):
        return self.n

    def __getitem__(self, i):
        i = int(i)
        if not 0 <= i < self.n:
            raise ExtractError("Jacobian index %d out of range" % i)
        return ("jac", i)


def _var_name(s):
    s = T.Sym.lift(s)
    if s.op == "var":
        return s.args[0]
    if s.is_const():
        return "const:%s" % (s.args[0],)
    raise ExtractError("evaluation point coordinate is not a plain input coordinate: %s" % T.show(s, 80))


class _EvalRec:
    """recorder bound to the name `_polynomial_evaluate`"""

    def __init__(self):
        self.calls = []

    def __call__(self, poly, point, clmo):
        if not (isinstance(poly, tuple) and poly[0] == "jac"):
            raise ExtractError("_polynomial_evaluate called on something that is not a Jacobian entry")
        if clmo != "CLMO":
            raise ExtractError("_polynomial_evaluate called with a different index table")
        names = [_var_name(x) for x in np.asarray(point, dtype=object).ravel()]
        j = len(self.calls)
        self.calls.append((poly[1], names))
        return _Val(T.Sym.var("v%d" % j, 0.37 + 0.11 * j))


def _signed_calls(vec, ncalls):
    """each output component must be +v_c or -v_c; returns [(negated, call index)]"""
    out = []
    for s in vec:
        nf = T.polynf(T.Sym.lift(s))
        if nf is None or len(nf) != 1:
            raise ExtractError("output component is not a single signed polynomial value")
        (mono, c), = nf.items()
        md = dict(mono)
        if len(md) != 1 or list(md.values()) != [1] or abs(c) != 1 or not list(md)[0].startswith("v"):
            raise ExtractError("output component is not a single signed polynomial value: %r" % (nf,))
        k = int(list(md)[0][1:])
        if not 0 <= k < ncalls:
            raise ExtractError("unknown call")
        out.append((c < 0, k))
    return out


def trace_rhs():
    """-> (wiring [(neg, jac idx)] per output component, src [state coordinate read by point coordinate j])"""
    from hiten.algorithms.dynamics import hamiltonian as hm
    T.reset()
    rec = _EvalRec()
    z = _symarr([T.Sym.var("z%d" % i, 0.1 * (i + 1)) for i in range(6)])
    f = T.retarget(hm._hamiltonian_rhs, {"_polynomial_evaluate": rec})
    out = f(z, _Jac(6), "CLMO", 3)
    if len(out) != 6:
        raise ExtractError("rhs has %d components" % len(out))
    sc = _signed_calls(out, len(rec.calls))
    pts = {tuple(names) for _, names in rec.calls}
    if len(pts) != 1:
        raise ExtractError("the Jacobian entries are evaluated at different points: %r" % (pts,))
    src = []
    for nm in list(pts)[0]:
        if not nm.startswith("z"):
            raise ExtractError("evaluation point coordinate %r" % nm)
        src.append(int(nm[1:]))
    return [(neg, rec.calls[k][0]) for neg, k in sc], src


def _point_wiring(names):
    w = []
    for nm in names:
        if nm[0] not in "QP" or not nm[1:].isdigit():
            raise ExtractError("evaluation point coordinate %r is not an entry of Q or P" % nm)
        w.append(("QP".index(nm[0]), int(nm[1:])))
    return w


def trace_grad(fn_name):
    """-> (jac indices per output component, point wiring [(block, i)])"""
    from hiten.algorithms.integrators import symplectic as sy
    T.reset()
    rec = _EvalRec()
    Q = _symarr([T.Sym.var("Q%d" % i, 0.1 * (i + 1)) for i in range(3)])
    P = _symarr([T.Sym.var("P%d" % i, -0.2 * (i + 1)) for i in range(3)])
    f = T.retarget(getattr(sy, fn_name), {"_polynomial_evaluate": rec})
    out = f(Q, P, _Jac(6), "CLMO")
    sc = _signed_calls(out, len(rec.calls))
    if any(neg for neg, _ in sc):
        raise ExtractError("%s negates a component" % fn_name)
    pts = {tuple(names) for _, names in rec.calls}
    if len(pts) != 1:
        raise ExtractError("evaluated at different points")
    return [rec.calls[k][0] for _, k in sc], _point_wiring(list(pts)[0])


def trace_hder():
    from hiten.algorithms.integrators import symplectic as sy
    T.reset()
    rec = _EvalRec()
    Q = _symarr([T.Sym.var("Q%d" % i, 0.1 * (i + 1)) for i in range(3)])
    P = _symarr([T.Sym.var("P%d" % i, -0.2 * (i + 1)) for i in range(3)])
    f = T.retarget(sy._eval_hamiltonian_derivative, {"_polynomial_evaluate": rec})
    out = f(Q, P, _Jac(6), "CLMO")
    sc = _signed_calls(out, len(rec.calls))
    pts = {tuple(names) for _, names in rec.calls}
    if len(pts) != 1:
        raise ExtractError("evaluated at different points")
    return [(neg, rec.calls[k][0]) for neg, k in sc], _point_wiring(list(pts)[0])


# =====================================================================================================
# 2. canonical traces of the straight-line twin pairs
# =====================================================================================================

class RecF:
    """recording vector field: a fresh vector of atoms k{j}_{d} per distinct argument vector"""

    def __init__(self, dim=DIM):
        self.calls = []
        self.memo = {}
        self.dim = dim

    def __call__(self, *args):
        y = args[-1] if len(args) <= 2 else args[1]
        ys = [T.Sym.lift(v) for v in np.asarray(y, dtype=object).ravel()]
        key = tuple(id(v) for v in ys)
        if key in self.memo:
            j = self.memo[key]
        else:
            j = len(self.calls)
            self.memo[key] = j
            self.calls.append(ys)
        return T.symarray([T.Sym.var("k%d_%d" % (j, d), math.sin(1.0 + 3 * j + d)) for d in range(self.dim)])


class Atoms:
    """shared atom numbering of a twin pair"""

    def __init__(self):
        self.ids = {}

    def __call__(self, name):
        if name not in self.ids:
            self.ids[name] = len(self.ids)
        return self.ids[name]


def nf_of(s, atoms):
    nf = T.polynf(T.Sym.lift(s))
    if nf is None:
        raise ExtractError("traced value is not polynomial in its atoms: %s" % T.show(T.Sym.lift(s), 120))
    terms = []
    for mono, c in nf.items():
        terms.append((tuple(sorted((atoms(v), e) for v, e in mono)), c.numerator, c.denominator))
    terms.sort()
    return terms


def trace_of(rec, outputs, atoms):
    """[normal form of every argument component of every distinct query, in call order] + outputs"""
    tr = []
    for ys in rec.calls:
        for s in ys:
            tr.append(nf_of(s, atoms))
    for vec in outputs:
        for s in np.asarray(vec, dtype=object).ravel():
            tr.append(nf_of(s, atoms))
    return tr


def _inputs(dim=DIM):
    t = T.Sym.var("t", 0.3)
    h = T.Sym.var("h", 0.125)
    y = T.symarray([T.Sym.var("y%d" % d, 0.7 + 0.2 * d) for d in range(dim)])
    return t, y, h


def _ham(rec):
    return {"_hamiltonian_rhs": lambda yy, jac, clmo, ndof: rec(yy)}


def twin_traces():
    """-> {name: (generic trace, hamiltonian trace, #distinct queries)} ; raises nothing, failures are reported per pair"""
    from hiten.algorithms.integrators import rk
    from hiten.algorithms.integrators.coefficients import dop853 as c8
    out, errs = {}, {}

    def pair(name, run_gen, run_ham):
        try:
            atoms = Atoms()
            T.reset()
            rg = RecF()
            og = run_gen(rg)
            tg = trace_of(rg, og, atoms)
            T.reset()
            rh = RecF()
            oh = run_ham(rh)
            th = trace_of(rh, oh, atoms)
            out[name] = (tg, th, len(rg.calls), len(rh.calls))
        except Exception as ex:  # noqa: BLE001 - any failure to trace is a broken obligation, never silently skipped
            errs[name] = "%s: %s" % (type(ex).__name__, ex)

    e0 = np.empty(0)
    for p in sorted(rk.FixedRK._map):
        integ = rk.FixedRK(p)
        A, B, C = integ._A, integ._B_HIGH, integ._C

        def g_step(rec, A=A, B=B, C=C):
            t, y, h = _inputs()
            return T.retarget(rk.rk_embedded_step_jit_kernel)(rec, t, y, h, A, B, e0, C, False)

        def h_step(rec, A=A, B=B, C=C):
            t, y, h = _inputs()
            return T.retarget(rk.rk_embedded_step_ham_jit_kernel, _ham(rec))(t, y, h, A, B, e0, C, False, None, None, 1)

        pair("step_fixed%d" % p, g_step, h_step)

        def grid():
            return T.symarray([T.Sym.var("t%d" % i, 0.1 + 0.13 * i * (i + 1)) for i in range(3)])

        def g_drv(rec, A=A, B=B, C=C):
            _, y, _ = _inputs()
            f = type(integ)._integrate_fixed_rk
            return T.retarget(f)(rec, y, grid(), A, B, e0, C, False)

        def h_drv(rec, A=A, B=B, C=C):
            _, y, _ = _inputs()
            f = type(integ)._integrate_fixed_rk_ham
            return T.retarget(f, _ham(rec))(y, grid(), A, B, e0, C, False, None, None, 1)

        pair("driver_fixed%d" % p, g_drv, h_drv)

    i45 = rk.AdaptiveRK(5)
    pair("step_rk45",
         lambda rec: T.retarget(rk.rk45_step_jit_kernel)(rec, *_inputs(), i45._A, i45._B_HIGH, i45._C, i45._E)[:3],
         lambda rec: T.retarget(rk.rk45_step_ham_jit_kernel, _ham(rec))(*_inputs(), i45._A, i45._B_HIGH, i45._C, i45._E, None, None, 1)[:3])
    i8 = rk.AdaptiveRK(8)

    def pick8(res):
        yh, yl, errv, e5, e3, k = res
        return [yh, e5, e3]     # err_vec / y_low contain |.| and hypot: compared through e5, e3 that determine them

    pair("step_dop853",
         lambda rec: pick8(T.retarget(rk.dop853_step_jit_kernel)(rec, *_inputs(), i8._A, i8._B_HIGH, i8._C, i8._E5, i8._E3)),
         lambda rec: pick8(T.retarget(rk.dop853_step_ham_jit_kernel, _ham(rec))(*_inputs(), i8._A, i8._B_HIGH, i8._C, i8._E5, i8._E3, None, None, 1)))

    def dense_args():
        t, y, h = _inputs()
        ns = c8.N_STAGES + 1
        K = np.empty((ns, DIM), dtype=object)
        for j in range(ns):
            for d in range(DIM):
                K[j, d] = T.Sym.var("K%d_%d" % (j, d), math.cos(0.3 + j + 2 * d))
        f0 = T.symarray([T.Sym.var("f0_%d" % d, 0.2 + d) for d in range(DIM)])
        y1 = T.symarray([T.Sym.var("y1_%d" % d, 0.4 - d) for d in range(DIM)])
        f1 = T.symarray([T.Sym.var("f1_%d" % d, -0.3 + d) for d in range(DIM)])
        return t, y, f0, y1, f1, h, K

    def g_dense(rec):
        t, y, f0, y1, f1, h, K = dense_args()
        return [T.retarget(rk._dop853_build_dense_cache)(rec, t, y, f0, y1, f1, h, K, c8.A, c8.C, c8.D,
                                                          c8.N_STAGES_EXTENDED, c8.INTERPOLATOR_POWER)]

    def h_dense(rec):
        t, y, f0, y1, f1, h, K = dense_args()
        return [T.retarget(rk._dop853_build_dense_cache_ham, _ham(rec))(t, y, f0, y1, f1, h, K, c8.A, c8.C, c8.D,
                                                                         c8.N_STAGES_EXTENDED, c8.INTERPOLATOR_POWER, None, None, 1)]

    pair("dense_dop853", g_dense, h_dense)
    return out, errs


def _lean_nf(nf):
    return "[" + ", ".join("NF.t [%s] (%d) %d" % (", ".join("NF.a %d %d" % ve for ve in m), n, d) for m, n, d in nf) + "]"


def _lean_trace(name, tr):
    return "def %s : Trace := [\n  %s]\n" % (name, ",\n  ".join(_lean_nf(nf) for nf in tr))


def gen(ctx):
    from hiten.algorithms.integrators import symplectic as sy
    txt = E.header("C17", imports=("HitenModel.Core.C17",),
                   note="index maps, rhs / evaluator wiring and twin traces of dynamics/hamiltonian.py, integrators/symplectic.py, integrators/rk.py")
    txt += "open HitenModel.C17\n\n"
    txt += "def nVars : Nat := %d\n" % int(sy.N_VARS_POLY)
    txt += "def nDof : Nat := %d\n" % int(sy.N_SYMPLECTIC_DOF)
    txt += "def qIdx : List Nat := %s\n" % [int(x) for x in sy.Q_POLY_INDICES]
    txt += "def pIdx : List Nat := %s\n" % [int(x) for x in sy.P_POLY_INDICES]
    info = {}

    def wires(ws):
        return "[" + ", ".join("(%s, %d)" % ("true" if n else "false", j) for n, j in ws) + "]"

    def pairs(ws):
        return "[" + ", ".join("(%d, %d)" % w for w in ws) + "]"

    try:
        w, src = trace_rhs()
        MODEL["rhs"] = (w, src)
        txt += "-- _hamiltonian_rhs: output component r = (negated?, Jacobian index); evaluation point coordinate j = state coordinate\n"
        txt += "def rhsWiring : List Wire := %s\n" % wires(w)
        txt += "def rhsSrc : List Nat := %s\n" % src
        info["rhsWiring"] = [[bool(n), j] for n, j in w]
    except Exception as ex:  # noqa: BLE001
        broken(ctx, "trace:_hamiltonian_rhs", "%s: %s" % (type(ex).__name__, ex))
        txt += "-- extraction failed: %s\n" % ex
    for nm, fn in (("dQ", "_eval_dH_dQ"), ("dP", "_eval_dH_dP")):
        try:
            idx, pw = trace_grad(fn)
            MODEL[nm] = (idx, pw)
            txt += "-- %s: Jacobian index per output component; point coordinate j = (block 0=Q/1=P, entry)\n" % fn
            txt += "def %sIdx : List Nat := %s\n" % (nm, idx)
            txt += "def %sPoint : List (Nat × Nat) := %s\n" % (nm, pairs(pw))
        except Exception as ex:  # noqa: BLE001
            broken(ctx, "trace:" + fn, "%s: %s" % (type(ex).__name__, ex))
            txt += "-- extraction failed: %s\n" % ex
    try:
        w, pw = trace_hder()
        MODEL["hder"] = (w, pw)
        txt += "-- _eval_hamiltonian_derivative (symplectic event path)\n"
        txt += "def hderWiring : List Wire := %s\n" % wires(w)
        txt += "def hderPoint : List (Nat × Nat) := %s\n" % pairs(pw)
    except Exception as ex:  # noqa: BLE001
        broken(ctx, "trace:_eval_hamiltonian_derivative", "%s: %s" % (type(ex).__name__, ex))
        txt += "-- extraction failed: %s\n" % ex
    traces, errs = twin_traces()
    MODEL["twins"] = traces
    for name, msg in errs.items():
        broken(ctx, "trace:twin:" + name, msg)
        txt += "-- twin %s: extraction failed: %s\n" % (name, msg.replace("\n", " ")[:300])
    txt += "\n-- canonical traces of the twin pairs (queries of the recording vector field in call order, then outputs)\n"
    for name in sorted(traces):
        tg, th, ng, nh = traces[name]
        txt += "def %s_queries : Nat × Nat := (%d, %d)\n" % (name, ng, nh)
        txt += _lean_trace(name + "_gen", tg)
        txt += _lean_trace(name + "_ham", th)
        info[name] = {"queries": [ng, nh], "values": [len(tg), len(th)], "equal": tg == th}
    txt += E.footer("C17")
    ctx.write_gen("HitenModel.Gen.C17", txt)
    ctx.extra["traces"] = info
    return info
