/-
  Props/C10.lean — property C10: backward propagation and time grids mean what they say.

  Model: Core/C10.lean (hand-written, tied to the source by the exact correspondence of harness/props/c10.py through
  Drivers/C10.lean).  `Gen.C10.cfg` and `Gen.C10.dirTrace` are regenerated from /repo on every run by executing the
  current Python objects.  Flow-level facts (Mathlib ODE uniqueness) are in Lemmas/C10.lean.

  Each clause of the property is a `def … : Prop` parameterised by the extracted switches, with
    * a characterisation `…_iff` valid for EVERY value of the switches (what exactly the code must do),
    * for the switches of the current tree either the clause itself or — where the current code violates it —
      its negation `…_current_false` with a concrete witness, and a `…_partial` theorem for the part that holds.
-/
import HitenModel.Gen.C10
import HitenModel.Lemmas.C10
import Mathlib.Tactic.Ring
import Mathlib.Tactic.Linarith
import Mathlib.Tactic.NormNum

namespace HitenModel.Props.C10
open HitenModel.C10 HitenModel.Gen.C10

/-! ## A. the direction wrapper `_DirectedSystem` -/

/-- forward direction: the wrapper is the base field -/
theorem directed_forward {τ β : Type} [Neg β] (ta : τ → τ) (base : τ → List β → List β) (fwd : Int) (h : fwd ≠ -1)
    (flip : Option (List Nat)) (t : τ) (y : List β) : directedRhs ta base fwd flip t y = base t y := by
  simp [directedRhs, h]

/-- backward, no selective flipping: every component of the base field (evaluated at the wrapper's time argument) is negated -/
theorem directed_backward_none {τ β : Type} [Neg β] (ta : τ → τ) (base : τ → List β → List β) (t : τ) (y : List β) :
    directedRhs ta base (-1) none t y = (base (ta t) y).map (fun v => -v) := by
  simp [directedRhs]

theorem negateAt_getElem? {β : Type} [Neg β] (idx : List Nat) (k : Nat) (l : List β) (i : Nat) :
    (negateAt idx k l)[i]? = (l[i]?).map (fun v => if idx.contains (k + i) then -v else v) := by
  induction l generalizing k i with
  | nil => simp [negateAt]
  | cons v vs ih =>
    cases i with
    | zero => simp [negateAt]
    | succ i =>
      simp only [negateAt, List.getElem?_cons_succ, ih]
      have : k + 1 + i = k + (i + 1) := by omega
      rw [this]

/-- backward with `flip_indices`: exactly the listed components are negated -/
theorem directed_backward_flip {τ β : Type} [Neg β] (ta : τ → τ) (base : τ → List β → List β) (idx : List Nat) (t : τ)
    (y : List β) (i : Nat) :
    (directedRhs ta base (-1) (some idx) t y)[i]? =
      ((base (ta t) y)[i]?).map (fun v => if idx.contains i then -v else v) := by
  simp [directedRhs, negateAt_getElem?]

/-- sign pattern the model predicts for a constructor call `_DirectedSystem(base, fwd, flip)` in dimension `dim` -/
def modelSigns (fwd : Int) (flip : Option (List Nat)) (dim : Nat) : List Int :=
  directedRhs (τ := Int) (β := Int) id (fun _ _ => List.replicate dim 1) (normFwd fwd) flip 0 []

/-- coefficient of `t` in the time handed to the base field -/
def modelTimeCoef (fwd : Int) : Int :=
  if normFwd fwd = -1 then
    match directedRhs (τ := Int) (β := Int) (fun t => cfg.dirTimeCoef * t) (fun t _ => [t]) (-1) none 1 [] with
    | [v] => -v
    | _ => 0
  else 1

/-- the sign table traced from the current `_rhs_impl` (30 constructor calls: fwd ∈ {1,-1,0,-3,2} × six flip patterns)
    is what the model computes -/
theorem directed_trace_matches_model :
    dirTrace.all (fun r => decide (modelSigns r.1 r.2.1 r.2.2.1 = r.2.2.2.2) && decide (modelTimeCoef r.1 = r.2.2.2.1)) = true := by
  decide

/-- **Clause 1 (flow level).** "Propagating with direction -1 for a duration s yields the state the flow had at time -s":
    the backward system is `z' = -f(c·s, z)` where `c` is the time coefficient used by the wrapper. -/
def BackwardIsFlowAtNegTime (c : ℝ) : Prop :=
  ∀ (E : Type) [NormedAddCommGroup E] [NormedSpace ℝ E] (f : ℝ → E → E) (U : Set E) (K : NNReal),
    (∀ t, LipschitzOnWith K (f t) U) → ∀ x y : ℝ → E,
      (∀ t, HasDerivAt x (f t (x t)) t) → (∀ t, x t ∈ U) →
      (∀ s, HasDerivAt y (-(f (c * s) (y s))) s) → (∀ s, y s ∈ U) → y 0 = x 0 → ∀ s, y s = x (-s)

/-- the clause holds for all fields, time-dependent ones included, exactly when the wrapper reverses the time argument -/
theorem backwardIsFlow_iff (c : ℝ) : BackwardIsFlowAtNegTime c ↔ c = -1 := by
  constructor
  · intro h
    obtain ⟨hx, hy⟩ := Flow.counterexample_solutions c
    have key := h ℝ (fun t _ => t) Set.univ 0 (fun t => by
        intro a _ b _; simp) (fun t => t ^ 2 / 2) (fun s => -(c * s ^ 2 / 2)) hx (fun _ => trivial)
      (fun s => by simpa using hy s) (fun _ => trivial) (by simp) 1
    have key' : -(c * (1:ℝ) ^ 2 / 2) = (-1 : ℝ) ^ 2 / 2 := key
    norm_num at key'
    linarith
  · rintro rfl E _ _ f U K hL x y hx hxU hy hyU h0 s
    exact Flow.backward_eq_flow_neg hL hx hxU (fun s => by simpa using hy s) hyU h0 s

/-- current tree: the wrapper passes `t` unchanged (`Gen.cfg.dirTimeCoef = 1`), so the clause FAILS for time-dependent
    fields.  (After the repair `_base_rhs(_fwd * t, y)` this theorem stops compiling and `backwardIsFlow_iff` gives the clause.) -/
theorem backwardIsFlow_current_false : ¬ BackwardIsFlowAtNegTime (cfg.dirTimeCoef : ℝ) := by
  rw [backwardIsFlow_iff]
  norm_num [cfg]

/-- the witness, spelled out: field `f(t,u) = t`, start 0.  Flow: `x(t) = t²/2`, so the state at time −1 is `+1/2`;
    the backward system the code integrates (`z' = -f(c s, z)`, `c = cfg.dirTimeCoef`) has the solution `-c s²/2`, i.e. `-1/2` at `s = 1`. -/
theorem directed_nonautonomous_counterexample :
    let c : ℝ := (cfg.dirTimeCoef : ℝ)
    let x : ℝ → ℝ := fun t => t ^ 2 / 2
    let y : ℝ → ℝ := fun s => -(c * s ^ 2 / 2)
    (∀ t, HasDerivAt x t t) ∧ (∀ s, HasDerivAt y (-(c * s)) s) ∧ y 0 = x 0 ∧ y 1 = -1 / 2 ∧ x (-1) = 1 / 2 := by
  obtain ⟨hx, hy⟩ := Flow.counterexample_solutions (cfg.dirTimeCoef : ℝ)
  refine ⟨hx, hy, by simp, ?_, ?_⟩ <;> norm_num [cfg]

/-- **partial**: for AUTONOMOUS fields (CR3BP, variational equations, polynomial Hamiltonians — everything the library itself
    propagates) the clause holds whatever time coefficient the wrapper uses.  Missing: time-dependent user fields. -/
theorem backwardIsFlow_autonomous_partial (c : ℝ) (E : Type) [NormedAddCommGroup E] [NormedSpace ℝ E] (g : E → E) (U : Set E)
    (K : NNReal) (hL : LipschitzOnWith K g U) (x y : ℝ → E) (hx : ∀ t, HasDerivAt x (g (x t)) t) (hxU : ∀ t, x t ∈ U)
    (hy : ∀ s, HasDerivAt y (-((fun (_ : ℝ) u => g u) (c * s) (y s))) s) (hyU : ∀ s, y s ∈ U) (h0 : y 0 = x 0) (s : ℝ) :
    y s = x (-s) :=
  Flow.backward_eq_flow_neg_autonomous hL hx hxU hy hyU h0 s

/-- **Clause 1 (round trip)**: forward for `T`, then backward for `T` from the end state, returns to the start
    (autonomous fields; exact flows — "within integration tolerance" is measured by the harness). -/
theorem forward_backward_roundtrip (E : Type) [NormedAddCommGroup E] [NormedSpace ℝ E] (g : E → E) (U : Set E) (K : NNReal)
    (hL : LipschitzOnWith K g U) (x y : ℝ → E) (hx : ∀ t, HasDerivAt x (g (x t)) t) (hxU : ∀ t, x t ∈ U)
    (hy : ∀ s, HasDerivAt y (-(g (y s))) s) (hyU : ∀ s, y s ∈ U) (T : ℝ) (h0 : y 0 = x T) : y T = x 0 :=
  Flow.roundtrip_autonomous hL hx hxU hy hyU T h0

/-- non-vacuity: `g = id` on ℝ, `x = exp`, `y = exp(T - ·)` -/
example : ∃ (g : ℝ → ℝ) (x y : ℝ → ℝ), LipschitzOnWith 1 g Set.univ ∧ (∀ t, HasDerivAt x (g (x t)) t) ∧
    (∀ s, HasDerivAt y (-(g (y s))) s) ∧ y 0 = x 1 ∧ x 0 ≠ x 1 := by
  refine ⟨fun _ => 1, fun t => t, fun s => 1 - s, ?_, ?_, ?_, ?_, ?_⟩
  · intro a _ b _; simp
  · intro t; simpa using hasDerivAt_id' t
  · intro s; simpa using (hasDerivAt_id' s).const_sub 1
  · norm_num
  · norm_num

/-! ## B. grids and `validate_inputs` -/

/-- strictly decreasing / increasing grid (consecutive samples) -/
def Desc : List Int → Prop
  | a :: b :: rest => b < a ∧ Desc (b :: rest)
  | _ => True
def Asc : List Int → Prop
  | a :: b :: rest => a < b ∧ Asc (b :: rest)
  | _ => True

theorem diffs_all_neg_iff (ts : List Int) : (diffs ts).all (fun x => decide (x < 0)) = true ↔ Desc ts := by
  induction ts with
  | nil => simp [diffs, Desc]
  | cons a rest ih =>
    cases rest with
    | nil => simp [diffs, Desc]
    | cons b rest => simp only [diffs, List.all_cons, Bool.and_eq_true, decide_eq_true_eq, Desc, ih]; omega

theorem diffs_all_pos_iff (ts : List Int) : (diffs ts).all (fun x => decide (0 < x)) = true ↔ Asc ts := by
  induction ts with
  | nil => simp [diffs, Asc]
  | cons a rest ih =>
    cases rest with
    | nil => simp [diffs, Asc]
    | cons b rest => simp only [diffs, List.all_cons, Bool.and_eq_true, decide_eq_true_eq, Asc, ih]; omega

theorem desc_last_lt_head : ∀ (a b : Int) (rest : List Int), Desc (a :: b :: rest) → (a :: b :: rest).getLastD 0 < a
  | a, b, [], h => by simpa [Desc] using h
  | a, b, c :: rest, h => by
    have h1 : b < a := h.1
    have := desc_last_lt_head b c rest h.2
    simp only [List.getLastD_cons] at this ⊢
    omega

theorem asc_head_lt_last : ∀ (a b : Int) (rest : List Int), Asc (a :: b :: rest) → a < (a :: b :: rest).getLastD 0
  | a, b, [], h => by simpa [Asc] using h
  | a, b, c :: rest, h => by
    have h1 : a < b := h.1
    have := asc_head_lt_last b c rest h.2
    simp only [List.getLastD_cons] at this ⊢
    omega

/-- `validate_inputs` accepts every strictly decreasing grid with at least two samples … -/
theorem validate_descending (ts : List Int) (hl : 2 ≤ ts.length) (h : Desc ts) : validateGrid ts = .ok .descending := by
  match ts, hl, h with
  | a :: b :: rest, _, h =>
    have hneg := (diffs_all_neg_iff (a :: b :: rest)).2 h
    have hba : b < a := h.1
    have h0 : (diffs (a :: b :: rest)).all (fun x => x == 0) = false := by
      simp only [diffs, List.all_cons, Bool.and_eq_false_iff]; left; simp; omega
    have hp : (diffs (a :: b :: rest)).all (fun x => decide (0 < x)) = false := by
      simp only [diffs, List.all_cons, Bool.and_eq_false_iff]; left; simp; omega
    simp [validateGrid, h0, hp, hneg]

/-- … and every strictly increasing one -/
theorem validate_ascending (ts : List Int) (hl : 2 ≤ ts.length) (h : Asc ts) : validateGrid ts = .ok .ascending := by
  match ts, hl, h with
  | a :: b :: rest, _, h =>
    have hpos := (diffs_all_pos_iff (a :: b :: rest)).2 h
    have hab : a < b := h.1
    have h0 : (diffs (a :: b :: rest)).all (fun x => x == 0) = false := by
      simp only [diffs, List.all_cons, Bool.and_eq_false_iff]; left; simp; omega
    simp [validateGrid, h0, hpos]

/-- … and nothing else except zero-span grids: whatever is accepted is constant, strictly increasing or strictly decreasing -/
theorem validate_ok_cases (ts : List Int) (k : GridKind) (h : validateGrid ts = .ok k) :
    2 ≤ ts.length ∧ ((k = .zeroSpan ∧ ∀ d ∈ diffs ts, d = 0) ∨ (k = .ascending ∧ Asc ts) ∨ (k = .descending ∧ Desc ts)) := by
  unfold validateGrid at h
  split at h
  · cases h
  · rename_i hlen
    refine ⟨by omega, ?_⟩
    simp only at h
    split at h
    · rename_i h0
      cases h; left; refine ⟨rfl, ?_⟩
      intro d hd
      have := List.all_eq_true.1 h0 d hd
      simpa using this
    · split at h
      · rename_i hp; cases h; right; left; exact ⟨rfl, (diffs_all_pos_iff ts).1 hp⟩
      · split at h
        · rename_i hn; cases h; right; right; exact ⟨rfl, (diffs_all_neg_iff ts).1 hn⟩
        · cases h

/-! ## C. fixed-step integrators: signed steps, so ascending and descending grids are both integrated faithfully -/

/-- an exact flow on the tick axis: `φ τ` advances the state by the (signed) duration `τ` -/
structure IsFlow {S : Type} (φ : Int → S → S) : Prop where
  zero : ∀ y, φ 0 y = y
  add : ∀ a b y, φ (a + b) y = φ b (φ a y)

/-- a returned trajectory is *faithful* to the flow `φ` when every sample is the state the flow has at its stamp
    (relative to the first stamp).  A silently wrong trajectory is one that is returned without being faithful. -/
def Faithful {S : Type} (φ : Int → S → S) (y0 : S) (s : Sol S) : Prop :=
  s.states = s.times.map (fun t => φ (t - s.times.headD 0) y0)

theorem fixedStates_exact {S : Type} (φ : Int → S → S) (hφ : IsFlow φ) (y : S) (t : Int) (ts : List Int) :
    fixedStates (fun _ h y => φ h y) y (t :: ts) = (t :: ts).map (fun u => φ (u - t) y) := by
  induction ts generalizing y t with
  | nil => simp [fixedStates, hφ.zero]
  | cons t' rest ih =>
    simp only [fixedStates, List.map_cons, Int.sub_self, hφ.zero, List.cons.injEq, true_and]
    rw [ih]
    simp only [List.map_cons, Int.sub_self, hφ.zero, List.cons.injEq, true_and]
    constructor
    · rw [hφ.zero]
    · apply List.map_congr_left
      intro u _
      rw [← hφ.add]; congr 1; omega

/-- what the fixed-step driver returns for ANY accepted grid and ANY step function: the requested times themselves,
    one state per time, the first one being the initial state, every further one obtained by ONE step with the signed
    increment `h = t_{i+1} - t_i` from the previous one. -/
theorem fixed_structure {S : Type} (close : Int → Int → Bool) (step : Int → Int → S → S) (y0 : S) (ts : List Int) (s : Sol S)
    (h : integrateFixed close step y0 ts = .sol s) :
    s.times = ts ∧ s.states.length = ts.length ∧ s.states.head? = some y0 ∧
      (close (ts.headD 0) (ts.getLastD 0) = false → s.states = fixedStates step y0 ts) := by
  unfold integrateFixed at h
  split at h
  · cases h
  · rename_i k hv
    have hl := (validate_ok_cases ts k hv).1
    have hlen : ∀ (y : S) (l : List Int), (fixedStates step y l).length = l.length := by
      intro y l
      induction l generalizing y with
      | nil => simp [fixedStates]
      | cons a rest ih => cases rest with
        | nil => simp [fixedStates]
        | cons b rest => simp [fixedStates, ih]
    split at h
    · rename_i hc
      cases h
      refine ⟨rfl, by simp, ?_, by simp [hc]⟩
      match ts, hl with
      | a :: b :: rest, _ => simp [List.replicate_succ]
    · cases h
      refine ⟨rfl, hlen _ _, ?_, fun _ => rfl⟩
      match ts, hl with
      | a :: b :: rest, _ => simp [fixedStates]

/-- **Clause 3/4 for the fixed-step family**: on every strictly monotone grid — ascending or DESCENDING — with an exact step
    the returned trajectory is faithful: stamps are the requested times, sample i is the flow at `t_i - t_0` (negative
    durations on a descending grid), the first sample is the initial state. -/
theorem fixed_monotone_faithful {S : Type} (φ : Int → S → S) (hφ : IsFlow φ) (close : Int → Int → Bool) (y0 : S) (ts : List Int)
    (hl : 2 ≤ ts.length) (hm : Asc ts ∨ Desc ts) (hc : close (ts.headD 0) (ts.getLastD 0) = false) :
    ∃ s, integrateFixed close (fun _ h y => φ h y) y0 ts = .sol s ∧ s.times = ts ∧ Faithful φ y0 s ∧ s.states.head? = some y0 := by
  have hv : ∃ k, validateGrid ts = .ok k := by
    rcases hm with h | h
    · exact ⟨_, validate_ascending ts hl h⟩
    · exact ⟨_, validate_descending ts hl h⟩
  obtain ⟨k, hv⟩ := hv
  match ts, hl with
  | a :: b :: rest, _ =>
    refine ⟨⟨a :: b :: rest, fixedStates (fun _ h y => φ h y) y0 (a :: b :: rest)⟩, ?_, rfl, ?_, ?_⟩
    · simp [integrateFixed, hv, hc]
    · simp only [Faithful, List.headD_cons]
      exact fixedStates_exact φ hφ y0 a (b :: rest)
    · simp [fixedStates]

/-- non-vacuity + concrete descending example: translation flow on ℤ, grid `[0,-2,-5]` -/
example : IsFlow (fun (τ : Int) (y : Int) => y + τ) ∧ Desc [0, -2, -5] ∧
    integrateFixed (fun _ _ => false) (fun _ h y => y + h) (10 : Int) [0, -2, -5] = .sol ⟨[0, -2, -5], [10, 8, 5]⟩ := by
  refine ⟨⟨by intro y; simp, by intro a b y; omega⟩, by simp [Desc], by decide⟩

end HitenModel.Props.C10
