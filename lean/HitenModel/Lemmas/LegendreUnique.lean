/-
  Lemmas/LegendreUnique.lean — uniqueness of the inverse square root in `R⟦t⟧` (2 invertible, no domain hypothesis), and
  hence: the generating series `Σ T_n tⁿ` of the recurrence of `_build_T_polynomials` IS the power series `1/√(1 − 2xt + st²)`
  (the unique `g` with `g(0) = 1`, `g²·(1 − 2xt + st²) = 1`).
-/
import HitenModel.Lemmas.Legendre
import Mathlib.RingTheory.PowerSeries.Inverse
import Mathlib.Algebra.Algebra.Rat

namespace HitenModel.LegendreGen
open PowerSeries

section unique
variable {R : Type*} [CommRing R]

/-- a power series with constant coefficient `2` is a unit of `R⟦t⟧` as soon as `2` is a unit of `R` -/
theorem isUnit_of_constantCoeff_eq_two (h2 : IsUnit (2 : R)) (f : R⟦X⟧) (hf : constantCoeff f = 2) : IsUnit f :=
  isUnit_iff_constantCoeff.mpr (hf ▸ h2)

/-- **uniqueness of the inverse square root**: in `R⟦t⟧`, `R` any commutative ring in which `2` is a unit (no domain hypothesis),
two series with constant coefficient `1` whose squares are both inverse to the same `q` are equal. -/
theorem inv_sqrt_unique (h2 : IsUnit (2 : R)) (q g h : R⟦X⟧) (hg0 : constantCoeff g = 1) (hh0 : constantCoeff h = 1)
    (hg : g ^ 2 * q = 1) (hh : h ^ 2 * q = 1) : g = h := by
  -- `g² = h²` because `q` is a unit
  have hsq : g ^ 2 = h ^ 2 := by
    calc g ^ 2 = g ^ 2 * (h ^ 2 * q) := by rw [hh, mul_one]
      _ = h ^ 2 * (g ^ 2 * q) := by ring
      _ = h ^ 2 := by rw [hg, mul_one]
  -- `(g − h)(g + h) = 0` and `g + h` is a unit
  have hprod : (g - h) * (g + h) = 0 := by linear_combination hsq
  have hu : IsUnit (g + h) := by
    refine isUnit_of_constantCoeff_eq_two h2 _ ?_
    rw [map_add, hg0, hh0]; norm_num
  have := (hu.mul_left_eq_zero).mp hprod
  exact sub_eq_zero.mp this

/-- the same with `[Invertible (2 : R)]` -/
theorem inv_sqrt_unique_of_invertible [Invertible (2 : R)] (q g h : R⟦X⟧) (hg0 : constantCoeff g = 1)
    (hh0 : constantCoeff h = 1) (hg : g ^ 2 * q = 1) (hh : h ^ 2 * q = 1) : g = h :=
  inv_sqrt_unique (isUnit_of_invertible 2) q g h hg0 hh0 hg hh

/-- `2` is a unit in every ℚ-algebra -/
theorem isUnit_two_of_algebra_rat (R : Type*) [CommRing R] [Algebra ℚ R] : IsUnit (2 : R) := by
  have : (2 : R) = algebraMap ℚ R 2 := by rw [map_ofNat]
  rw [this]
  exact (isUnit_iff_ne_zero.mpr (by norm_num : (2 : ℚ) ≠ 0)).map (algebraMap ℚ R)

/-- **`Σ T_n tⁿ` is THE inverse square root of `1 − 2xt + st²`**: let `2` be a unit of the torsion-free ring `R`, and let `T` satisfy
the hypotheses of `generating_identity`.  Then every power series `g` with `g(0) = 1` and `g²·(1 − 2xt + st²) = 1` equals `Σ T_n tⁿ`. -/
theorem legendre_series_unique [IsAddTorsionFree R] (h2 : IsUnit (2 : R)) (x s : R) (T : ℕ → R) (h0 : T 0 = 1) (h1 : T 1 = x)
    (hrec : ∀ n : ℕ, ((n : R) + 2) * T (n + 2) = (2 * (n : R) + 3) * (x * T (n + 1)) - ((n : R) + 1) * (s * T n))
    (g : R⟦X⟧) (hg0 : constantCoeff g = 1) (hg : g ^ 2 * (1 - 2 * C x * X + C s * X ^ 2) = 1) :
    mk T = g := by
  refine inv_sqrt_unique h2 (1 - 2 * C x * X + C s * X ^ 2) (mk T) g ?_ hg0 ?_ hg
  · rw [← coeff_zero_eq_constantCoeff_apply, coeff_mk, h0]
  · rw [mul_comm]; exact generating_identity x s T h0 h1 hrec

/-- coefficientwise: `T n` is the `tⁿ` Taylor coefficient of the inverse square root `g` -/
theorem legendre_coeff_unique [IsAddTorsionFree R] (h2 : IsUnit (2 : R)) (x s : R) (T : ℕ → R) (h0 : T 0 = 1) (h1 : T 1 = x)
    (hrec : ∀ n : ℕ, ((n : R) + 2) * T (n + 2) = (2 * (n : R) + 3) * (x * T (n + 1)) - ((n : R) + 1) * (s * T n))
    (g : R⟦X⟧) (hg0 : constantCoeff g = 1) (hg : g ^ 2 * (1 - 2 * C x * X + C s * X ^ 2) = 1) (n : ℕ) :
    T n = coeff n g := by
  rw [← legendre_series_unique h2 x s T h0 h1 hrec g hg0 hg, coeff_mk]

/-- over a ℚ-algebra (both `IsAddTorsionFree` and `IsUnit 2` are automatic) -/
theorem legendre_series_unique_rat [Algebra ℚ R] (x s : R) (T : ℕ → R) (h0 : T 0 = 1) (h1 : T 1 = x)
    (hrec : ∀ n : ℕ, ((n : R) + 2) * T (n + 2) = (2 * (n : R) + 3) * (x * T (n + 1)) - ((n : R) + 1) * (s * T n))
    (g : R⟦X⟧) (hg0 : constantCoeff g = 1) (hg : g ^ 2 * (1 - 2 * C x * X + C s * X ^ 2) = 1) :
    mk T = g := by
  have : IsAddTorsionFree R := IsAddTorsionFree.of_module_rat R
  exact legendre_series_unique (isUnit_two_of_algebra_rat R) x s T h0 h1 hrec g hg0 hg

/-- existence and uniqueness together: under the recurrence hypotheses there is exactly one power series `g` with `g(0) = 1` and
`g²·(1 − 2xt + st²) = 1` — namely `Σ T_n tⁿ` -/
theorem legendre_inv_sqrt_existsUnique [IsAddTorsionFree R] (h2 : IsUnit (2 : R)) (x s : R) (T : ℕ → R) (h0 : T 0 = 1)
    (h1 : T 1 = x)
    (hrec : ∀ n : ℕ, ((n : R) + 2) * T (n + 2) = (2 * (n : R) + 3) * (x * T (n + 1)) - ((n : R) + 1) * (s * T n)) :
    ∃! g : R⟦X⟧, constantCoeff g = 1 ∧ g ^ 2 * (1 - 2 * C x * X + C s * X ^ 2) = 1 := by
  refine ⟨mk T, ⟨?_, ?_⟩, fun g hg => (legendre_series_unique h2 x s T h0 h1 hrec g hg.1 hg.2).symm⟩
  · rw [← coeff_zero_eq_constantCoeff_apply, coeff_mk, h0]
  · rw [mul_comm]; exact generating_identity x s T h0 h1 hrec

/-- two sequences satisfying the recurrence hypotheses (same `x`, `s`) coincide -/
theorem legendre_sequence_unique [IsAddTorsionFree R] (h2 : IsUnit (2 : R)) (x s : R) (T T' : ℕ → R)
    (h0 : T 0 = 1) (h1 : T 1 = x)
    (hrec : ∀ n : ℕ, ((n : R) + 2) * T (n + 2) = (2 * (n : R) + 3) * (x * T (n + 1)) - ((n : R) + 1) * (s * T n))
    (h0' : T' 0 = 1) (h1' : T' 1 = x)
    (hrec' : ∀ n : ℕ, ((n : R) + 2) * T' (n + 2) = (2 * (n : R) + 3) * (x * T' (n + 1)) - ((n : R) + 1) * (s * T' n)) :
    T = T' := by
  have hg : mk T' ^ 2 * (1 - 2 * C x * X + C s * X ^ 2) = 1 := by
    rw [mul_comm]; exact generating_identity x s T' h0' h1' hrec'
  have hg0 : constantCoeff (mk T') = 1 := by rw [← coeff_zero_eq_constantCoeff_apply, coeff_mk, h0']
  funext n
  rw [legendre_coeff_unique h2 x s T h0 h1 hrec (mk T') hg0 hg n, coeff_mk]

end unique

/-! ### non-vacuity -/

/-- the hypotheses of `inv_sqrt_unique` are satisfiable: over `ℚ`, `q = (1 − t)²`, `g = 1/(1−t) = Σ tⁿ` -/
example : ∃ q g : ℚ⟦X⟧, constantCoeff g = 1 ∧ g ^ 2 * q = 1 :=
  ⟨(1 - X) ^ 2, mk 1, by simp [← coeff_zero_eq_constantCoeff_apply], by
    rw [← mul_pow, mul_comm]
    have : (1 - X : ℚ⟦X⟧) * mk 1 = 1 := by
      rw [mul_comm, mul_sub, mul_one]
      ext n
      rcases n with _ | n
      · simp
      · simp [coeff_succ_mul_X, coeff_one]
    rw [this, one_pow]⟩

/-- … and the conclusion has content: with `x = s = 1` (`q = (1−t)²`) the recurrence's series is `Σ tⁿ`, the only `g` with
`g(0) = 1`, `g²(1−t)² = 1` (the other root `−Σ tⁿ` has `g(0) = −1`) -/
example (g : ℚ⟦X⟧) (hg0 : constantCoeff g = 1) (hg : g ^ 2 * (1 - 2 * C (1 : ℚ) * X + C (1 : ℚ) * X ^ 2) = 1) :
    g = mk fun _ => (1 : ℚ) :=
  (legendre_series_unique_rat (R := ℚ) 1 1 (fun _ => 1) rfl rfl (fun n => by ring) g hg0 hg).symm

end HitenModel.LegendreGen
