"""C15 — synodic section detection finds every crossing once, on the plane, in order.

T-trace: `_hermite_scalar`, `_hermite_der` (poincare/utils.py) and the whole of `_refine_hits_cubic`,
`_refine_hits_linear`, `_crossing_indices_and_alpha` (synodic/backend.py) are *executed* on symbolic data and emitted
as `RE` terms in Gen/C15.lean; Props/C15.lean proves the derivative / interpolation / Newton / on-plane identities
about them.
T-corr: the hand model Core/C15.lean (detection over Q, Hermite pair plugged in from Gen/C15.lean by the driver) is
compared with the real `_SynodicDetectionBackend.detect_on_trajectory` — exactly on dyadic trajectories (all sign
patterns x directions x tolerances x refinements), to 1e-11 where float division rounds.
Numerics / failing-input search: an independent reading of the property on the real outputs (each compatible sign
change exactly one hit inside its interval, on the plane, ordered), convergence orders on analytic curves and a
CR3BP trajectory, cubic never worse than the linear interpolation bound."""
from __future__ import annotations

import itertools
import math
from fractions import Fraction

import numpy as np

import lean_emit as E
import tracer as T

F = Fraction

# --------------------------------------------------------------------------- tracing


class _SymArr(np.ndarray):
    """object ndarray whose `.astype(float)` keeps the symbols (the code calls it only to copy)"""

    def astype(self, *a, **k):
        return self.copy()

    def tolist(self):  # thit.tolist() in detect_on_trajectory
        return [x for x in np.asarray(self)]


def _symarr(vals):
    a = np.empty(len(vals), dtype=object)
    for i, v in enumerate(vals):
        a[i] = v
    return a.view(_SymArr)


def _ident_float(x):
    if isinstance(x, T.Sym):
        return x
    if isinstance(x, np.ndarray) and x.dtype == object and x.shape == ():
        return x.item()
    return float(x)


class _Shim(T.ShimNP):
    """array-aware minimum/maximum (np.minimum(1.0, np.maximum(0.0, alpha)) on arrays)"""

    def minimum(self, a, b):
        if T._has_sym(a) or T._has_sym(b):
            if isinstance(a, np.ndarray) or isinstance(b, np.ndarray):
                aa, bb = np.broadcast_arrays(np.asarray(a, dtype=object), np.asarray(b, dtype=object))
                out = np.empty(aa.shape, dtype=object)
                for idx in np.ndindex(aa.shape):
                    x, y = T.Sym.lift(aa[idx]), T.Sym.lift(bb[idx])
                    out[idx] = x if x <= y else y
                return out.view(_SymArr)
        return super().minimum(a, b)

    def maximum(self, a, b):
        r = super().maximum(a, b)
        return r.view(_SymArr) if isinstance(r, np.ndarray) and r.dtype == object else r

    def empty(self, shape, dtype=None):
        return super().empty(shape, float if dtype is _ident_float else dtype)

    def asarray(self, x, dtype=None):
        r = super().asarray(x, float if dtype is _ident_float else dtype)
        return r.view(_SymArr) if isinstance(r, np.ndarray) and r.dtype == object else r


HVARS = ["s", "y0", "y1", "d0", "d1", "dt"]


def trace_hermite():
    from hiten.algorithms.poincare import utils as U
    T.reset()
    vals = [0.3, -1.0, 2.0, 0.5, 0.7, 0.25]
    vs = [T.Sym.var(n, v) for n, v in zip(HVARS, vals)]
    h = T.retarget(U._hermite_scalar)(*vs)
    d = T.retarget(U._hermite_der)(*vs)
    return h, d


def trace_cubic(max_iter, k, N, sval=0.3):
    """Run the current `_refine_hits_cubic` on symbolic times/section values/states for crossing segment k of an
    N-sample trajectory, Newton limited to `max_iter` updates.  Returns (th, xh) Syms."""
    from hiten.algorithms.poincare.synodic import backend as B
    T.reset()
    tv = [0.0, 1.0, 2.5, 3.0]
    xv = [0.1, 0.4, 0.9, 1.3]
    # shadow values: put the sign change in segment k
    gv = [(-1.0 - 0.5 * (k - i)) if i <= k else (2.0 + 0.5 * (i - k - 1)) for i in range(N)]
    times = _symarr([T.Sym.var("t%d" % i, tv[i]) for i in range(N)])
    g_all = _symarr([T.Sym.var("g%d" % i, gv[i]) for i in range(N)])
    st = np.empty((N, 1), dtype=object)
    for i in range(N):
        st[i, 0] = T.Sym.var("x%d" % i, xv[i])
    st = st.view(_SymArr)
    alpha = _symarr([T.Sym.var("s", sval)])
    f = T.retarget(B._refine_hits_cubic, {"float": _ident_float}, shim=_Shim())
    th, xh = f(times, st, g_all, np.array([k]), alpha, max_iter=max_iter)
    return T.Sym.lift(th[0]), T.Sym.lift(np.asarray(xh[0]).ravel()[0])


def trace_linear():
    """`_crossing_indices_and_alpha` + `_refine_hits_linear` on one symbolic segment (shadow: a -/+ crossing)."""
    from hiten.algorithms.poincare.synodic import backend as B
    out = {}
    for dname, d in (("Any", None), ("Pos", 1)):
        T.reset()
        g0 = _symarr([T.Sym.var("g0", -1.0)])
        g1 = _symarr([T.Sym.var("g1", 3.0)])
        f = T.retarget(B._crossing_indices_and_alpha, {"float": _ident_float}, shim=_Shim())
        cr, al = f(g0, g1, on_mask=np.zeros(1, dtype=bool), direction=d)
        assert list(cr) == [0]
        out["alpha" + dname] = T.Sym.lift(al[0])
    T.reset()
    t0 = _symarr([T.Sym.var("t0", 0.5)])
    t1 = _symarr([T.Sym.var("t1", 1.5)])
    x0 = np.empty((1, 1), dtype=object)
    x1 = np.empty((1, 1), dtype=object)
    x0[0, 0] = T.Sym.var("x0", 0.2)
    x1[0, 0] = T.Sym.var("x1", 0.9)
    a = _symarr([T.Sym.var("a", 0.25)])
    f = T.retarget(B._refine_hits_linear, {"float": _ident_float}, shim=_Shim())
    th, xh = f(t0, t1, x0.view(_SymArr), x1.view(_SymArr), np.array([0]), a)
    out["linTime"] = T.Sym.lift(th[0])
    out["linState"] = T.Sym.lift(np.asarray(xh[0]).ravel()[0])
    return out


CVARS = ["s"] + ["t%d" % i for i in range(4)] + ["g%d" % i for i in range(4)] + ["x%d" % i for i in range(4)]


def gen(ctx):
    tr = {}
    h, d = trace_hermite()
    tr["hermite"], tr["hermiteDer"] = h, d
    hidx = {n: i for i, n in enumerate(HVARS)}
    cidx = {n: i for i, n in enumerate(CVARS)}
    txt = E.header("C15", note="traced from poincare/utils.py (_hermite_scalar, _hermite_der) and synodic/backend.py "
                               "(_refine_hits_cubic, _refine_hits_linear, _crossing_indices_and_alpha)")
    txt += "open RE\n-- variables of hermite/hermiteDer: 0 s, 1 y0, 2 y1, 3 dy0, 4 dy1, 5 dt\n"
    txt += E.re_def("hermite", h, hidx)
    txt += E.re_def("hermiteDer", d, hidx)
    # _refine_hits_cubic: interior segment (k=1 of 4 samples), left boundary (k=0 of 3), right boundary (k=1 of 3),
    # isolated (k=0 of 2); with 0 and 1 Newton updates
    txt += "-- variables of cub*: 0 s(=alpha), 1..4 t0..t3, 5..8 g0..g3, 9..12 x0..x3 (samples of the trajectory)\n"
    for tag, k, N in (("I", 1, 4), ("L", 0, 3), ("R", 1, 3), ("B", 0, 2)):
        th0, xh0 = trace_cubic(0, k, N)
        th1, xh1 = trace_cubic(1, k, N)
        tr["cubTime0" + tag], tr["cubState0" + tag] = th0, xh0
        tr["cubTime1" + tag], tr["cubState1" + tag] = th1, xh1
        txt += E.re_def("cubTime0" + tag, th0, cidx)
        txt += E.re_def("cubState0" + tag, xh0, cidx)
        txt += E.re_def("cubTime1" + tag, th1, cidx)
    lin = trace_linear()
    tr.update(lin)
    txt += "-- variables of alpha*: 0 g0, 1 g1;  of linTime/linState: 0 alpha, 1 t0, 2 t1, 3 x0, 4 x1\n"
    txt += E.re_def("alphaAny", lin["alphaAny"], {"g0": 0, "g1": 1})
    txt += E.re_def("alphaPos", lin["alphaPos"], {"g0": 0, "g1": 1})
    lidx = {"a": 0, "t0": 1, "t1": 2, "x0": 3, "x1": 4}
    txt += E.re_def("linTime", lin["linTime"], lidx)
    txt += E.re_def("linState", lin["linState"], lidx)
    txt += E.footer("C15")
    ctx.write_gen("HitenModel.Gen.C15", txt)
    return tr


# --------------------------------------------------------------------------- correspondence (T-corr)

COORD = ["x", "y", "z", "vx", "vy", "vz"]


def fr(x):
    return x if isinstance(x, Fraction) else Fraction(x)


def fstr(q):
    q = fr(q)
    return str(q.numerator) if q.denominator == 1 else "%d/%d" % (q.numerator, q.denominator)


class Case:
    """One detector call.  All numbers are Fractions that are exactly representable as float64."""

    def __init__(self, times, states, normal, offset, direction, tol, ttol, ptol, maxhits, pc, cubic, refine, iters,
                 exact, tag=""):
        self.times, self.states, self.normal, self.offset = times, states, normal, offset
        self.direction, self.tol, self.ttol, self.ptol, self.maxhits = direction, tol, ttol, ptol, maxhits
        self.pc, self.cubic, self.refine, self.iters, self.exact, self.tag = pc, cubic, refine, iters, exact, tag

    def line(self):
        head = [str(self.direction or 0), fstr(self.tol), fstr(self.ttol), fstr(self.ptol),
                str(-1 if self.maxhits is None else self.maxhits), str(self.pc[0]), str(self.pc[1]),
                "1" if self.cubic else "0", str(self.refine), str(self.iters)]
        nums = [fstr(v) for v in self.normal] + [fstr(self.offset), str(len(self.times))]
        for t, x in zip(self.times, self.states):
            nums.append(fstr(t))
            nums += [fstr(v) for v in x]
        return " ".join(head + nums)

    def g(self):
        return [sum(a * b for a, b in zip(x, self.normal)) - self.offset for x in self.states]

    def kwargs(self):
        return dict(normal=np.array([float(v) for v in self.normal]), offset=float(self.offset),
                    plane_coords=(COORD[self.pc[0]], COORD[self.pc[1]]),
                    interp_kind="cubic" if self.cubic else "linear", segment_refine=self.refine,
                    tol_on_surface=float(self.tol), dedup_time_tol=float(self.ttol), dedup_point_tol=float(self.ptol),
                    max_hits_per_traj=self.maxhits, newton_max_iter=self.iters, direction=self.direction)

    def replay(self):
        d = self.kwargs()
        d["normal"] = [float(v) for v in self.normal]
        return {"call": "_SynodicDetectionBackend().detect_on_trajectory(times, states, **kwargs)",
                "times": [float(t) for t in self.times], "states": [[float(v) for v in x] for x in self.states],
                "kwargs": d, "section_values": [float(v) for v in self.g()], "tag": self.tag}


def run_real(backend, case):
    ts = np.array([float(t) for t in case.times])
    st = np.array([[float(v) for v in x] for x in case.states])
    with np.errstate(all="ignore"):
        hits = backend.detect_on_trajectory(ts, st, **case.kwargs())
    return [(float(h.time), [float(v) for v in h.state], [float(v) for v in h.point2d]) for h in hits]


def parse_model(line):
    toks = line.split()
    assert toks and toks[0] == "H", line
    out = []
    for tok in toks[2:]:
        seg, on, s, tm, xs = tok.split(":")
        out.append({"seg": int(seg), "on": on == "1", "s": Fraction(s), "time": Fraction(tm),
                    "state": [Fraction(v) for v in xs.split(",")]})
    assert len(out) == int(toks[1])
    return out


def make_states(rng, times, g, normal, offset):
    """6-D states with normal·x − offset == g exactly (normal[lead] == 1); the other coordinates are small dyadics: some
    monotone in time, some returning to earlier values (so that the projected point may revisit an earlier hit)."""
    lead = [i for i, v in enumerate(normal) if v == 1][0]
    states = []
    for k, (t, gv) in enumerate(zip(times, g)):
        x = [F(0)] * 6
        for i in range(6):
            if i != lead:
                x[i] = [t, F(k * k, 4), F((k * k) % 3, 2), 2 * t - 1, F(1, 2) + (k % 2), -t][i]
        x[lead] = gv + offset - sum(normal[i] * x[i] for i in range(6) if i != lead)
        states.append(x)
    return states


NORMALS = [([F(1), F(0), F(0), F(0), F(0), F(0)], F(0)),
           ([F(0), F(1), F(0), F(0), F(0), F(0)], F(1, 2)),
           ([F(1), F(2), F(0), F(-1), F(0), F(1, 2)], F(3, 4)),
           ([F(-1, 2), F(0), F(1), F(0), F(3), F(0)], F(-2))]
PCS = [(1, 4), (0, 2), (3, 5), (1, 2)]


def dyadic_grid(rng, N, uniform=False):
    t = F(rng.choice([0, -3, 5, 1])) / rng.choice([1, 2, 4])
    out = [t]
    # a trajectory may be sampled backward in time (strictly decreasing stamps, e.g. a stable-manifold branch): one grid in four
    sgn = -1 if rng.random() < 0.25 else 1
    for _ in range(N - 1):
        t = t + sgn * (F(1, 2) if uniform else rng.choice([F(1), F(1, 2), F(2), F(1, 4)]))
        out.append(t)
    return out


def exact_cases(ctx):
    """All sign patterns {−,0,+}^N (N up to 6 quick / 8 thorough, sampled beyond) x directions; magnitudes in {1,3}
    (every alpha is then dyadic and the float code is exact), dyadic non-uniform grids, tolerances including 0 and a
    tolerance (2) that makes the magnitude-1 samples on-surface although non-zero, refinements 0/1/3, dedup on/off."""
    rng = ctx.rng
    full_to = 8 if ctx.thorough() else 6
    cases = []
    for N in range(2, 9):
        pats = list(itertools.product((-1, 0, 1), repeat=N))
        if N > full_to:
            pats = rng.sample(pats, 700 if N == 7 else 500)
        for pat in pats:
            g = [F(sg * rng.choice([1, 3])) for sg in pat]
            times = dyadic_grid(rng, N, uniform=rng.random() < 0.3)
            normal, offset = NORMALS[rng.randrange(len(NORMALS))]
            states = make_states(rng, times, g, normal, offset)
            pc = PCS[rng.randrange(len(PCS))]
            for d in (None, 1, -1):
                tol = rng.choice([F(1, 1024), F(1, 1024), F(0), F(2)])
                ttol = rng.choice([F(0), F(1, 2 ** 20), F(1, 2 ** 20), F(3, 4)])
                ptol = rng.choice([F(0), F(1, 2 ** 20), F(1, 2 ** 20), F(3, 2)])
                mh = rng.choice([None, None, None, None, 1, 2, 0])
                refine = rng.choice([0, 0, 1, 3])
                cases.append(Case(times, states, normal, offset, d, tol, ttol, ptol, mh, pc, False, refine, 4, True,
                                  tag="exact N=%d pat=%s" % (N, "".join("-0+"[s + 1] for s in pat))))
    return cases


def approx_cases(ctx):
    """Random float trajectories (general magnitudes, non-dyadic quotients, refinement counts that are not powers of
    two, cubic interpolation with 0..3 Newton updates on low-bit dyadic data)."""
    rng = ctx.rng
    cases = []
    n = 1500 if ctx.thorough() else 400
    for k in range(n):
        N = rng.randint(2, 9)
        cubic = (k % 2 == 0)
        if cubic:
            g = [F(rng.randint(-12, 12), 4) if rng.random() < 0.85 else F(0) for _ in range(N)]
            times = dyadic_grid(rng, N, uniform=rng.random() < 0.5)
        else:
            g = [F(float(rng.uniform(-1, 1))) if rng.random() < 0.85 else F(0) for _ in range(N)]
            t = F(float(rng.uniform(-1, 1)))
            times = [t]
            for _ in range(N - 1):
                t = F(float(t + F(float(rng.uniform(0.05, 1.0)))))
                times.append(t)
        normal, offset = NORMALS[rng.randrange(2)]      # axis normals: g = x_i − c is computed without rounding issues in sign
        states = make_states(rng, times, g, normal, offset)
        if not cubic:
            # make every entry a float64 value and recompute nothing: g := exact value of the float states
            states = [[F(float(v)) for v in x] for x in states]
        d = rng.choice([None, 1, -1])
        refine = rng.choice([0, 1, 2, 3, 4, 6]) if not cubic else rng.choice([0, 0, 1, 3])
        iters = rng.choice([0, 1, 2, 3]) if cubic else 4
        cases.append(Case(times, states, normal, offset, d, F(1, 2 ** 30), F(1, 2 ** 30), F(1, 2 ** 30), None,
                          PCS[rng.randrange(len(PCS))], cubic, refine, iters, False,
                          tag="approx cubic=%s" % cubic))
    return cases


def compare(case, real, model):
    """None if the outputs agree, else a description."""
    if len(real) != len(model):
        return "number of hits: code %d, model %d" % (len(real), len(model))
    for i, (r, m) in enumerate(zip(real, model)):
        rt, rx, rp = r
        vals = [(F(rt), m["time"], "time")] + [(F(a), b, "state[%d]" % j) for j, (a, b) in enumerate(zip(rx, m["state"]))]
        vals += [(F(rp[0]), m["state"][case.pc[0]], "point2d[0]"), (F(rp[1]), m["state"][case.pc[1]], "point2d[1]")]
        for a, b, nm in vals:
            if case.exact:
                if a != b:
                    return "hit %d %s: code %r, model %r (exact arithmetic case)" % (i, nm, float(a), float(b))
            else:
                tol = 1e-9 if case.cubic else 1e-11
                if abs(a - b) > tol * (1 + abs(b)):
                    return "hit %d %s: code %r, model %r" % (i, nm, float(a), float(b))
    return None


def correspondence(ctx, backend):
    cases = exact_cases(ctx) + approx_cases(ctx)
    ctx.log("correspondence: %d cases" % len(cases))
    text = "\n".join(c.line() for c in cases) + "\n"
    out = [l for l in ctx.lean_run("Drivers/C15.lean", text) if l.startswith(("H", "E"))]
    ctx.log("lean driver returned %d lines" % len(out))
    if len(out) != len(cases):
        ctx.broken.append(("correspondence:detect", "driver returned %d lines for %d cases" % (len(out), len(cases))))
        ctx.obligations["correspondence:detect"] = False
        return cases
    bad = []
    kinds = {}
    for c, line in zip(cases, out):
        model = parse_model(line)
        real = run_real(backend, c)
        msg = compare(c, real, model)
        nh = len(model)
        non_on = sum(1 for h in model if not h["on"])
        key = (c.tag, str(c.direction), c.refine, c.cubic, fstr(c.tol), fstr(c.ttol), str(c.maxhits))
        ctx.case(key, nontrivial=nh > 0, kind="%s r=%d %s" % ("cubic" if c.cubic else "linear", c.refine, "exact" if c.exact else "approx"),
                 sample={"case": c.replay(), "hits": [[float(h["time"])] + [float(v) for v in h["state"]] for h in model]} if len(ctx.samples) < 3 and non_on > 1 else None)
        ctx.corr_cases += 1
        kinds["hits=%d" % min(nh, 6)] = kinds.get("hits=%d" % min(nh, 6), 0) + 1
        if msg:
            bad.append((c, msg, real, model))
    ctx.extra["correspondence_hit_count_histogram"] = kinds
    ctx.extra["correspondence_cases"] = len(cases)
    if bad:
        c, msg, real, model = bad[0]
        ctx.broken.append(("correspondence:detect", "%d of %d cases disagree; first: %s; %s" % (len(bad), len(cases), c.tag, msg)))
        ctx.obligations["correspondence:detect"] = False
        ctx.extra["correspondence_first_disagreement"] = {"case": c.replay(), "message": msg, "code": real,
                                                          "model": [[float(h["time"])] + [float(v) for v in h["state"]] for h in model]}
    else:
        ctx.obligations["correspondence:detect"] = True
    return cases


# --------------------------------------------------------------------------- translation validation of the traces


def validate_traces(ctx, tr):
    """The traced DAGs evaluated in floats must agree with the *compiled / real* functions on random inputs."""
    from hiten.algorithms.poincare import utils as U
    from hiten.algorithms.poincare.synodic import backend as B
    rng = ctx.rng
    n = 300 if ctx.thorough() else 100
    worst = 0.0

    def bad(name, msg):
        ctx.broken.append(("trace-validation:" + name, msg))
        ctx.obligations["trace-validation:" + name] = False

    for k in range(n):
        vals = [rng.uniform(-0.5, 1.5)] + [rng.uniform(-2, 2) for _ in range(4)] + [rng.uniform(0.01, 2)]
        env = dict(zip(HVARS, vals))
        for nm, fn in (("hermite", U._hermite_scalar), ("hermiteDer", U._hermite_der)):
            m = T.evalf(tr[nm], env)
            c = float(fn(*vals))
            err = abs(m - c) / (1 + abs(c))
            worst = max(worst, err)
            ctx.traces_validated += 1
            if not err <= 1e-12:
                return bad(nm, "trace %r vs compiled %r at %r" % (m, c, vals))
    # _refine_hits_cubic on concrete data (interior / boundary segments; 0 and 1 Newton updates)
    done = 0
    tries = 0
    while done < n and tries < 50 * n:
        tries += 1
        tag, kk, N = [("I", 1, 4), ("L", 0, 3), ("R", 1, 3), ("B", 0, 2)][tries % 4]
        ts = np.cumsum([rng.uniform(0.2, 1.0) for _ in range(N)])
        gs = np.array([rng.uniform(-2, 2) for _ in range(N)])
        xs = np.array([[rng.uniform(-1, 1)] for _ in range(N)])
        gs[kk] = -abs(gs[kk]) - 0.1
        gs[kk + 1] = abs(gs[kk + 1]) + 0.1
        a = gs[kk] / (gs[kk] - gs[kk + 1])
        env = {"s": a}
        for i in range(N):
            env["t%d" % i], env["g%d" % i], env["x%d" % i] = ts[i], gs[i], xs[i, 0]
        th0, xh0 = B._refine_hits_cubic(ts, xs, gs, np.array([kk]), np.array([a]), max_iter=0)
        th1, xh1 = B._refine_hits_cubic(ts, xs, gs, np.array([kk]), np.array([a]), max_iter=1)
        m_t0 = T.evalf(tr["cubTime0" + tag], env)
        m_x0 = T.evalf(tr["cubState0" + tag], env)
        m_t1 = T.evalf(tr["cubTime1" + tag], env)
        s1 = (m_t1 - ts[kk]) / (ts[kk + 1] - ts[kk])
        if not (0.0 < s1 < 1.0):
            continue        # the real run clamped: different path from the traced one
        for nm, m, c in (("cubTime0" + tag, m_t0, th0[0]), ("cubState0" + tag, m_x0, xh0[0][0]), ("cubTime1" + tag, m_t1, th1[0])):
            err = abs(m - c) / (1 + abs(c))
            worst = max(worst, err)
            ctx.traces_validated += 1
            if not err <= 1e-11:
                return bad(nm, "trace %r vs real %r (times %r, g %r, x %r, alpha %r)" % (m, float(c), ts.tolist(), gs.tolist(), xs.ravel().tolist(), a))
        done += 1
    for k in range(n):
        g0, g1 = -rng.uniform(0.1, 2), rng.uniform(0.1, 2)
        cr, al = B._crossing_indices_and_alpha(np.array([g0]), np.array([g1]), on_mask=np.zeros(1, dtype=bool),
                                               direction=[None, 1][k % 2])
        m = T.evalf(tr[["alphaAny", "alphaPos"][k % 2]], {"g0": g0, "g1": g1})
        t0, t1, x0, x1 = rng.uniform(0, 1), rng.uniform(1, 2), rng.uniform(-1, 1), rng.uniform(-1, 1)
        th, xh = B._refine_hits_linear(np.array([t0]), np.array([t1]), np.array([[x0]]), np.array([[x1]]), np.array([0]), al)
        env = {"a": al[0], "t0": t0, "t1": t1, "x0": x0, "x1": x1}
        for nm, mm, c in (("alpha", m, al[0]), ("linTime", T.evalf(tr["linTime"], env), th[0]), ("linState", T.evalf(tr["linState"], env), xh[0][0])):
            err = abs(mm - c) / (1 + abs(c))
            worst = max(worst, err)
            ctx.traces_validated += 1
            if not err <= 1e-12:
                return bad(nm, "trace %r vs real %r" % (mm, float(c)))
    ctx.obligations["trace-validation"] = True
    ctx.extra["trace_validation_worst_rel_err"] = worst


# --------------------------------------------------------------------------- independent reading of the property


def _is_small(q):
    return q <= F(1, 2 ** 20)


def oracle(case, real, backend=None):
    """Independent check of the property on the *real* output of one exact-arithmetic case (linear interpolation).
    Returns None or (key, message)."""
    g = case.g()
    ts = case.times
    N = len(ts)
    d = case.direction
    hits = [(F(t), [F(v) for v in x], [F(v) for v in p]) for t, x, p in real]
    # a trajectory sampled backward in time has strictly decreasing stamps: "time order", "inside the interval", "before" are all meant
    # along the trajectory, i.e. in the order parameter o(t) = +-t that increases with the sample index
    sg = -1 if ts[-1] < ts[0] else 1
    o = lambda t: sg * t
    # point2d is the projection of the state
    for t, x, p in hits:
        if p != [x[case.pc[0]], x[case.pc[1]]]:
            return ("point2d-not-projection", "point2d %r is not the projection of the state" % ([float(v) for v in p],))
    # ordered in time, strictly, and consecutive reported hits are not duplicates of each other
    for (ta, xa, pa), (tb, xb, pb) in zip(hits, hits[1:]):
        if not o(ta) < o(tb):
            return ("hits-not-time-ordered", "hit times not strictly monotone along the trajectory: %r then %r" % (float(ta), float(tb)))
        if abs(tb - ta) <= case.ttol or (pb[0] - pa[0]) ** 2 + (pb[1] - pa[1]) ** 2 <= case.ptol ** 2:
            return ("duplicate-hit-reported", "consecutive hits at t=%r and t=%r are duplicates under the dedup rule" % (float(ta), float(tb)))

    def weak(k):
        a, b = g[k], g[k + 1]
        if a == b:
            return False
        if d is None:
            return a * b <= 0
        return (a <= 0 <= b) if d == 1 else (a >= 0 >= b)

    def strict(k):
        a, b = g[k], g[k + 1]
        if d is None:
            return a * b < 0
        return (a < 0 < b) if d == 1 else (a > 0 > b)

    gv = lambda x: sum(a * b for a, b in zip(x, case.normal)) - case.offset
    for t, x, p in hits:
        if not o(ts[0]) <= o(t) <= o(ts[-1]):
            return ("hit-outside-trajectory", "hit time %r outside the sampled interval" % float(t))
        ok = False
        for k in range(N - 1):
            if not o(ts[k]) <= o(t) <= o(ts[k + 1]):
                continue
            if t == ts[k] and x == case.states[k] and abs(g[k]) < case.tol:
                # a sample lying on the surface; for a directed section it counts only if a neighbouring value is compatible with the direction
                # (documented rule of `_on_surface_indices`: next value on the target side, or previous value on the source side)
                if d is None:
                    ok = True
                elif d == 1:
                    ok = ok or (g[k + 1] >= 0) or (k >= 1 and g[k - 1] <= 0)
                else:
                    ok = ok or (g[k + 1] <= 0) or (k >= 1 and g[k - 1] >= 0)
            if weak(k):
                lam = (t - ts[k]) / (ts[k + 1] - ts[k])
                xi = [a + lam * (b - a) for a, b in zip(case.states[k], case.states[k + 1])]
                if xi == x and gv(x) == 0:
                    ok = True   # on the plane, on the chord of a bracketing segment with a compatible sign change
        if not ok:
            return ("hit-not-sound", "hit at t=%r, g(state)=%r is neither an on-surface sample nor the zero of the chord of a "
                    "segment with a direction-compatible sign change" % (float(t), float(gv(x))))
    if case.maxhits is not None:
        if len(hits) > max(1, case.maxhits):
            return ("max-hits-exceeded", "%d hits reported with max_hits_per_traj=%r" % (len(hits), case.maxhits))
        return None
    def excused(te, xe):
        """the stated dedup rule: the expected hit is a duplicate of the last reported hit before it"""
        prev = [h for h in hits if o(h[0]) < o(te)]
        if not prev:
            return False
        tp, xp, pp = prev[-1]
        pe = [xe[case.pc[0]], xe[case.pc[1]]]
        return abs(te - tp) <= case.ttol or (pe[0] - pp[0]) ** 2 + (pe[1] - pp[1]) ** 2 <= case.ptol ** 2

    def chord_zero(k):
        lam = g[k] / (g[k] - g[k + 1])
        return ts[k] + lam * (ts[k + 1] - ts[k]), [a + lam * (b - a) for a, b in zip(case.states[k], case.states[k + 1])]

    if _is_small(case.ttol) and _is_small(case.ptol):
        for k in range(N - 1):
            if strict(k) and abs(g[k]) >= case.tol and abs(g[k + 1]) >= case.tol:
                cnt = sum(1 for t, x, p in hits if o(ts[k]) < o(t) < o(ts[k + 1]))
                if cnt == 0 and excused(*chord_zero(k)):
                    continue
                if cnt != 1:
                    return ("crossing-missed" if cnt == 0 else "crossing-doubled",
                            "segment %d [%r,%r] has a strict sign change %r -> %r compatible with direction %r but %d hits lie "
                            "inside it" % (k, float(ts[k]), float(ts[k + 1]), float(g[k]), float(g[k + 1]), d, cnt))
            elif not weak(k):
                cnt = sum(1 for t, x, p in hits if o(ts[k]) < o(t) < o(ts[k + 1]))
                if cnt:
                    return ("spurious-hit", "segment %d has no direction-compatible sign change (%r -> %r, direction %r) but %d "
                            "hits lie strictly inside it" % (k, float(g[k]), float(g[k + 1]), d, cnt))
            if 1 <= k and g[k] == 0 and g[k - 1] * g[k + 1] < 0 and (d is None or (g[k + 1] > 0) == (d == 1)):
                cnt = sum(1 for t, x, p in hits if t == ts[k])
                if cnt == 0 and excused(ts[k], case.states[k]):
                    continue
                if cnt != 1:
                    return ("crossing-through-sample-missed" if cnt == 0 else "crossing-doubled",
                            "the section function passes through zero exactly at sample %d (%r -> 0 -> %r, direction %r) but %d hits "
                            "are reported at t=%r" % (k, float(g[k - 1]), float(g[k + 1]), d, cnt, float(ts[k])))
            if d is None and abs(g[k]) < case.tol:
                cnt = sum(1 for t, x, p in hits if t == ts[k])
                if cnt == 0 and excused(ts[k], case.states[k]):
                    continue
                if cnt != 1:
                    return ("on-surface-sample-missed", "sample %d lies on the surface (|g|=%r < tol) but %d hits are reported at its time"
                            % (k, float(abs(g[k])), cnt))
    return None


def oracle_sweep(ctx, backend, cases, report=True):
    """Run the independent oracle on the real output of every exact linear case."""
    found = {}
    n = 0
    for c in cases:
        if not c.exact or c.cubic:
            continue
        real = run_real(backend, c)
        n += 1
        r = oracle(c, real)
        if r and r[0] not in found:
            found[r[0]] = (c, r[1], real)
    ctx.extra["oracle_cases"] = n
    if report:
        for key, (c, msg, real) in found.items():
            ctx.violation(key, msg, {"input": c.replay(), "observed_hits": [[t] + x for t, x, p in real], "expected": msg})
    return found


def refine_endpoint_check(ctx, backend):
    """A trajectory that ends exactly on the section: the crossing of the last segment must be reported for every
    segment_refine (it is for r = 0)."""
    ts = [F(0), F(1)]
    states = [[F(-1), F(0), F(0), F(0), F(0), F(0)], [F(0), F(1), F(0), F(0), F(1), F(0)]]
    rs = list(range(0, 130)) if ctx.thorough() else [0, 1, 2, 3, 5, 6, 10, 20, 47, 48, 49, 50, 51, 64, 97, 100]
    missing = []
    for r in rs:
        for d in (None, 1):
            c = Case(ts, states, NORMALS[0][0], NORMALS[0][1], d, F(1, 2 ** 40), F(1, 2 ** 30), F(1, 2 ** 40), None, (1, 4),
                     False, r, 4, False, tag="trajectory ending on the section, segment_refine=%d" % r)
            real = run_real(backend, c)
            ctx.case(("refine-endpoint", r, d), kind="refine-endpoint")
            if len(real) != 1 or real[0][0] != 1.0:
                missing.append((r, d, c, real))
    if missing and any(m[0] in (0, 1, 3) for m in missing):
        r, d, c, real = missing[0]
        ctx.violation("final-sample-crossing-missed", "segment_refine=%d, direction=%r: the crossing at the final sample (g: -1 -> 0) is not reported" % (r, d),
                      {"input": c.replay(), "observed_hits": real, "expected": "one hit at t=1.0"})
    elif missing:
        r, d, c, real = missing[0]
        ctx.violation("refine-step-rounding-last-sample",
                      "segment_refine=%s: the crossing at the final sample (g: -1 -> 0) is not reported although it is for "
                      "segment_refine=0 ((r+1)*(1/(r+1)) < 1 in floating point, so the last sub-interval stops short of the sample)"
                      % sorted({m[0] for m in missing}),
                      {"input": c.replay(), "observed_hits": real, "expected": "one hit at t=1.0",
                       "all_failing_refine_values": sorted({m[0] for m in missing})})


# --------------------------------------------------------------------------- numerical shell: convergence


def _curve(rng):
    a = [rng.uniform(0.3, 1.0) for _ in range(6)]
    w = [rng.uniform(0.6, 1.6) for _ in range(6)]
    p = [rng.uniform(0, 2 * math.pi) for _ in range(6)]
    b = [rng.uniform(-0.1, 0.1) for _ in range(6)]
    x = lambda t: np.array([a[i] * np.cos(w[i] * t + p[i]) + b[i] * t for i in range(6)])
    dx = lambda t: np.array([-a[i] * w[i] * np.sin(w[i] * t + p[i]) + b[i] for i in range(6)])
    ddx = lambda t: np.array([-a[i] * w[i] ** 2 * np.cos(w[i] * t + p[i]) for i in range(6)])
    return x, dx, ddx, {"a": a, "w": w, "p": p, "b": b}


def _roots(gf, T_end, n=20000):
    from scipy.optimize import brentq
    tt = np.linspace(0, T_end, n + 1)
    gg = gf(tt)
    out = []
    for i in range(n):
        if gg[i] == 0.0 or gg[i] * gg[i + 1] < 0:
            out.append(brentq(lambda t: float(gf(t)), tt[i], tt[i + 1], xtol=1e-15, rtol=8.9e-16))
    return np.array(out)


def convergence(ctx, backend):
    """Analytic curves with known crossings: error of hit time/state versus sampling, linear ~2nd order, cubic >= 3rd
    order on uniform grids, and every hit within the linear-interpolation error bound of its interval."""
    rng = ctx.rng
    ncurves = 6 if ctx.thorough() else 3
    report = []
    ci = -1
    tries = 0
    while len(report) < 2 * ncurves and tries < 6 * ncurves:
        tries += 1
        ci += 1
        x, dx, ddx, params = _curve(rng)
        nrm = np.array([rng.uniform(-1, 1) for _ in range(6)])
        nrm /= np.linalg.norm(nrm)
        off = rng.uniform(-0.1, 0.1)
        T_end = 40.0
        gf = lambda t: np.tensordot(nrm, x(np.asarray(t)), axes=(0, 0)) - off
        dgf = lambda t: np.tensordot(nrm, dx(np.asarray(t)), axes=(0, 0))
        ddgf = lambda t: np.tensordot(nrm, ddx(np.asarray(t)), axes=(0, 0))
        roots = _roots(gf, T_end, 40000)
        # keep transversal, well separated roots away from the ends
        good = [r for r in roots if abs(dgf(r)) > 0.15 and 0.3 < r < T_end - 0.3]
        if len(good) < 8 or len(roots) > 60:
            continue
        for uniform in (True, False):
            errs = {"linear": [], "cubic": []}
            Ns = [401, 801, 1601, 3201]
            for N in Ns:
                if uniform:
                    ts = np.linspace(0, T_end, N)
                else:       # smooth non-uniform grid, local step ratio up to 3
                    u = np.linspace(0, 1, N)
                    ts = T_end * (u + 0.5 * np.sin(2 * np.pi * 7 * u) / (2 * np.pi * 7))
                    ts[-1] = T_end
                st = x(ts).T.copy()
                for kind in ("linear", "cubic"):
                    for direction in (None,):
                        hits = backend.detect_on_trajectory(ts, st, normal=nrm, offset=off, interp_kind=kind, direction=direction,
                                                            segment_refine=0, newton_max_iter=8, dedup_point_tol=0.0)
                        ht = np.array([h.time for h in hits])
                        ctx.case(("conv", ci, uniform, N, kind), kind="convergence")
                        if len(ht) != len(roots):
                            ctx.violation("analytic-crossing-count", "%d hits for %d exact crossings of an analytic curve (%s, N=%d)" % (len(ht), len(roots), kind, N),
                                          {"curve": params, "normal": nrm.tolist(), "offset": off, "N": N, "uniform": uniform,
                                           "interp_kind": kind, "exact_crossings": roots.tolist(), "hit_times": ht.tolist()})
                            return
                        esum = 0.0
                        for r in good:
                            j = int(np.argmin(np.abs(ht - r)))
                            e = abs(ht[j] - r)
                            k = int(np.searchsorted(ts, r) - 1)
                            h = ts[k + 1] - ts[k]
                            tt = np.linspace(ts[max(k - 1, 0)], ts[min(k + 2, N - 1)], 50)
                            bound = h * h / 8 * np.max(np.abs(ddgf(tt))) / np.min(np.abs(dgf(tt)))
                            xs = hits[j].state
                            ex = float(np.max(np.abs(xs - x(r))))
                            xbound = float(np.max(np.abs(dx(r)))) * bound + h * h / 8 * float(np.max(np.abs(ddx(tt))))
                            # the property: no worse than the linear-interpolation error of the interval (margin 2 + rounding)
                            if not (e <= 2.0 * bound + 1e-13 and ex <= 2.0 * xbound + 1e-13):
                                ctx.violation("hit-error-exceeds-linear-bound:" + kind,
                                              "%s hit near t=%.6f: time error %.3e (bound %.3e), state error %.3e (bound %.3e)" % (kind, r, e, bound, ex, xbound),
                                              {"curve": params, "normal": nrm.tolist(), "offset": off, "N": N, "uniform": uniform,
                                               "interp_kind": kind, "exact_crossing": float(r), "hit_time": float(ht[j]),
                                               "linear_interpolation_bound": float(bound)})
                                return
                            esum += e
                        errs[kind].append(esum / len(good))
            p_lin = math.log2(errs["linear"][0] / errs["linear"][-1]) / 3
            p_cub = math.log2(max(errs["cubic"][0], 1e-300) / max(errs["cubic"][-1], 1e-16)) / 3
            report.append({"curve": ci, "uniform": uniform, "err_linear": errs["linear"], "err_cubic": errs["cubic"],
                           "order_linear": p_lin, "order_cubic": p_cub})
            rep = {"curve": params, "normal": nrm.tolist(), "offset": off, "Ns": Ns, "uniform": uniform, "errors": errs}
            # mean error over >= 8 crossings, three octaves (observed scatter +-0.25).  Central-difference slopes make the
            # Hermite interpolant third-order accurate, so the expected cubic order is 3; a wrong interpolation formula
            # (e.g. the former _hermite_der) gives order 2 and errors *above* the linear ones
            if not 1.5 <= p_lin <= 2.6:
                ctx.violation("linear-order", "linear interpolation converges at order %.2f (expected 2)" % p_lin, rep)
                return
            if uniform and errs["cubic"][0] > 1e-10 and not p_cub >= 2.5:
                ctx.violation("cubic-order", "cubic interpolation converges at order %.2f on a uniform grid (expected >= 3)" % p_cub, rep)
                return
            if not errs["cubic"][-1] <= 0.5 * errs["linear"][-1]:
                ctx.violation("cubic-worse-than-linear", "cubic error %.3e exceeds linear error %.3e at N=%d" % (errs["cubic"][-1], errs["linear"][-1], Ns[-1]), rep)
                return
    ctx.extra["convergence"] = report


def crtbp_convergence(ctx, backend):
    """A CR3BP trajectory (real propagator): hits of the y = 0 section versus sampling density."""
    from hiten.algorithms.dynamics import rtbp
    from hiten.algorithms.dynamics.base import _propagate_dynsys
    mu = 0.0121505856
    s0 = np.array([0.82, 0.02, 0.05, 0.03, 0.16, 0.02])
    T_end = 12.0
    nrm = np.array([0.0, 1.0, 0.0, 0.0, 0.0, 0.0])
    ref_N = 12801
    sol = _propagate_dynsys(rtbp.rtbp_dynsys(mu), s0, 0.0, T_end, forward=1, steps=ref_N, method="fixed", order=8)
    # reference crossings independent of the code under test: roots of SciPy's cubic spline through the fine samples
    from scipy.interpolate import CubicSpline
    rt = np.sort(np.asarray(CubicSpline(np.asarray(sol.times), np.asarray(sol.states)[:, 1]).roots(extrapolate=False), dtype=float))
    rt = rt[(rt > 1e-9) & (rt < T_end - 1e-9)]
    errs = {"linear": [], "cubic": []}
    Ns = [401, 801, 1601]
    for N in Ns:
        step = (ref_N - 1) // (N - 1)
        ts = np.asarray(sol.times)[::step]
        st = np.asarray(sol.states)[::step]
        for kind in ("linear", "cubic"):
            hits = backend.detect_on_trajectory(ts, st, normal=nrm, offset=0.0, interp_kind=kind, newton_max_iter=8, dedup_point_tol=0.0)
            ht = np.array([h.time for h in hits])
            ctx.case(("crtbp", N, kind), kind="crtbp-convergence")
            if len(ht) != len(rt):
                ctx.violation("crtbp-crossing-count", "%d hits at N=%d (%s) but %d crossings at N=%d" % (len(ht), N, kind, len(rt), ref_N),
                              {"mu": mu, "state0": s0.tolist(), "tf": T_end, "N": N, "interp_kind": kind, "hit_times": ht.tolist(), "reference": rt.tolist()})
                return
            errs[kind].append(float(np.mean(np.abs(ht - rt))))
    p_lin = math.log2(errs["linear"][0] / errs["linear"][-1]) / 2
    p_cub = math.log2(errs["cubic"][0] / max(errs["cubic"][-1], 1e-16)) / 2
    ctx.extra["crtbp_convergence"] = {"n_crossings": len(rt), "errors": errs, "order_linear": p_lin, "order_cubic": p_cub}
    rep = {"mu": mu, "state0": s0.tolist(), "tf": T_end, "Ns": Ns, "errors": errs, "section": "y=0"}
    if len(rt) == 0:
        return
    # few crossings (6) and a lunar fly-by: wide windows; the broken derivative gave order ~2 and errors above linear
    if not 1.5 <= p_lin <= 2.7:
        ctx.violation("linear-order", "CR3BP trajectory: linear interpolation converges at order %.2f (expected 2)" % p_lin, rep)
    elif errs["cubic"][0] > 1e-10 and not p_cub >= 2.6:
        ctx.violation("cubic-order", "CR3BP trajectory: cubic interpolation converges at order %.2f (expected >= 3)" % p_cub, rep)
    elif not errs["cubic"][-1] <= 0.2 * errs["linear"][-1]:
        ctx.violation("cubic-worse-than-linear", "CR3BP trajectory: cubic error %.3e exceeds linear error %.3e" % (errs["cubic"][-1], errs["linear"][-1]), rep)


# --------------------------------------------------------------------------- public path


def public_path(ctx, backend):
    """`SynodicMap.compute` must deliver what the backend delivers for the configured interpolation (default cubic)."""
    try:
        from hiten import System
        from hiten.system.maps import SynodicMap
        from hiten.system.orbits import GenericOrbit
        sysm = System.from_bodies("earth", "moon")
        l1 = sysm.get_libration_point(1)
        s0 = np.array([l1.position[0] + 0.01, 0.0, 0.0, 0.0, 0.0, 0.0])
        orbit = GenericOrbit(l1, initial_state=s0)
        orbit.period = 2.5
        orbit.propagate(steps=400)
        smap = SynodicMap(orbit)
        cfg_kind = getattr(smap.config.interp_kind, "interp_kind", smap.config.interp_kind)
        res = smap.compute(section_axis="y", section_offset=0.0, plane_coords=("x", "vx"), direction=None)
        ts, st = orbit.dynamics.trajectories[0].as_arrays() if hasattr(orbit.dynamics, "trajectories") else smap.trajectories()[0].as_arrays()
        o = smap.options.refine
        kw = dict(normal=[0, 1, 0, 0, 0, 0], offset=0.0, plane_coords=("x", "vx"), segment_refine=o.segment_refine,
                  tol_on_surface=o.tol_on_surface, dedup_time_tol=o.dedup_time_tol, dedup_point_tol=o.dedup_point_tol,
                  max_hits_per_traj=o.max_hits_per_traj, newton_max_iter=o.newton_max_iter, direction=None)
        want = {k: np.array([h.time for h in backend.detect_on_trajectory(np.asarray(ts), np.asarray(st), interp_kind=k, **kw)])
                for k in ("linear", "cubic")}
        got = np.asarray(res.times if res.times is not None else [], dtype=float)
        ctx.case(("public", cfg_kind), kind="public-path")
        same = lambda a, b: len(a) == len(b) and (len(a) == 0 or float(np.max(np.abs(a - b))) == 0.0)
        ctx.extra["public_path"] = {"configured_interp_kind": str(cfg_kind), "n_hits": int(len(got)),
                                    "equals_backend_linear": bool(same(got, want["linear"])),
                                    "equals_backend_cubic": bool(same(got, want["cubic"]))}
        rep = {"system": "earth-moon L1", "initial_state": s0.tolist(), "period": 2.5, "steps": 400,
               "call": "SynodicMap(orbit).compute(section_axis='y', section_offset=0.0, plane_coords=('x','vx'), direction=None)",
               "configured_interp_kind": str(cfg_kind), "public_times": got.tolist(),
               "backend_times_linear": want["linear"].tolist(), "backend_times_cubic": want["cubic"].tolist()}
        if same(want["linear"], want["cubic"]):
            return      # cannot discriminate on this trajectory
        if not same(got, want[str(cfg_kind)]):
            other = "linear" if str(cfg_kind) == "cubic" else "cubic"
            if same(got, want[other]):
                ctx.violation("public-path-interp-kind-ignored",
                              "SynodicMap.compute is configured with interp_kind=%r but returns bit-for-bit the %s-interpolation hits "
                              "(the RefineConfig object, not its string, reaches `interp_kind == \"cubic\"` in the backend)" % (cfg_kind, other), rep)
            else:
                ctx.violation("public-path-differs-from-backend", "SynodicMap.compute returns hits that differ from the backend's for the same options", rep)
    except Exception as ex:  # API shape differs: a broken correspondence, not a pass
        import traceback
        ctx.broken.append(("public-path", traceback.format_exc()[-800:]))
        ctx.obligations["public-path"] = False


def pipeline_paths(ctx, backend):
    """(1) several trajectories through the public synodic pipeline with 1 and with 3 workers: the hits labelled with trajectory index j are
    exactly what the backend reports for trajectory j (per trajectory: "exactly one hit for each sign change ... in time order per trajectory");
    (2) ONE SynodicMap object asked for direction=+1 and then direction=-1 (its service caches results): each answer is the backend's for the
    direction that was asked for."""
    from hiten.algorithms.poincare.synodic.base import SynodicMapPipeline
    from hiten.algorithms.poincare.synodic.config import SynodicMapConfig
    from hiten.algorithms.poincare.synodic.options import SynodicMapOptions
    from hiten.algorithms.types.configs import RefineConfig
    from hiten.algorithms.types.options import RefineOptions, WorkerOptions
    from hiten.algorithms.types.states import Trajectory
    rng = ctx.rng

    def spiral(w, phi, n=401, tmax=6.0):
        t = np.linspace(0.0, tmax, n)
        r = 1.0 + 0.05 * t
        th = w * t + phi
        X = np.column_stack((r * np.cos(th), r * np.sin(th), 0.01 * t, 0.05 * np.cos(th) - r * w * np.sin(th),
                             0.05 * np.sin(th) + r * w * np.cos(th), 0.01 * np.ones_like(t)))
        return t, X

    class Source:
        def __init__(self, trajs):
            self.trajectories = trajs

    arrays = [spiral(rng.uniform(0.8, 3.5), rng.uniform(0, 6.28)) for _ in range(5)]
    off = 0.3
    kw = dict(normal=[0, 1, 0, 0, 0, 0], offset=off, plane_coords=("x", "vx"), interp_kind="linear", segment_refine=1, tol_on_surface=1e-13,
              dedup_time_tol=1e-9, dedup_point_tol=1e-12, max_hits_per_traj=None, newton_max_iter=4)
    for direction in (1, None):
        want = [np.array([h.time for h in backend.detect_on_trajectory(t, X, direction=direction, **kw)]) for t, X in arrays]
        for nw in (1, 3):
            try:
                cfg = SynodicMapConfig(section_axis="y", section_offset=off, plane_coords=("x", "vx"), direction=direction,
                                       interp_kind=RefineConfig(interp_kind="linear"))
                opts = SynodicMapOptions(refine=RefineOptions(segment_refine=1, tol_on_surface=1e-13, dedup_time_tol=1e-9, dedup_point_tol=1e-12),
                                         workers=WorkerOptions(n_workers=nw))
                res = SynodicMapPipeline.with_default_engine(cfg).generate(Source([Trajectory(t, X) for t, X in arrays]), opts)
                times = np.asarray(res.times, dtype=float)
                tidx = np.asarray(res.trajectory_indices, dtype=int)
            except Exception:
                import traceback
                ctx.broken.append(("pipeline-paths", traceback.format_exc()[-800:]))
                ctx.obligations["pipeline-paths"] = False
                return
            ctx.case(("pipeline", direction, nw), nontrivial=nw > 1, kind="pipeline:workers%d" % nw)
            for j in range(len(arrays)):
                mine = times[tidx == j]
                if not (len(mine) == len(want[j]) and (len(mine) == 0 or float(np.max(np.abs(np.sort(mine) - want[j]))) == 0.0) and np.all(np.diff(mine) > 0)):
                    ctx.violation("pipeline-trajectory-bookkeeping",
                                  "public synodic pipeline, %d workers, direction=%r: the hits labelled with trajectory index %d (times %r) are not the hits of that trajectory (%r)" % (
                                      nw, direction, j, mine[:6].tolist(), want[j][:6].tolist()),
                                  {"n_workers": nw, "direction": direction, "trajectory": j, "hits_labelled": mine.tolist(), "hits_of_trajectory": want[j].tolist(),
                                   "trajectories": "five spirals r=1+0.05t, theta=w t+phi, plane y=0.3", "w_phi": "seeded"})
                    return
    # (2) direction history on one SynodicMap object
    try:
        from hiten import System
        from hiten.system.maps import SynodicMap
        from hiten.system.orbits import GenericOrbit
        sysm = System.from_bodies("earth", "moon")
        l1 = sysm.get_libration_point(1)
        s0 = np.array([l1.position[0] + 0.01, 0.0, 0.0, 0.0, 0.0, 0.0])
        orbit = GenericOrbit(l1, initial_state=s0)
        orbit.period = 2.5
        orbit.propagate(steps=400)
        smap = SynodicMap(orbit)
        hist = []
        out = {}
        for d in (1, -1, 1):
            hist.append(d)
            res = smap.compute(section_axis="y", section_offset=0.0, plane_coords=("x", "vx"), direction=d)
            out[tuple(hist)] = np.asarray(res.times if res.times is not None else [], dtype=float)
        a, b, c = out[(1,)], out[(1, -1)], out[(1, -1, 1)]
        fresh = SynodicMap(orbit).compute(section_axis="y", section_offset=0.0, plane_coords=("x", "vx"), direction=-1)
        fb = np.asarray(fresh.times if fresh.times is not None else [], dtype=float)
        ctx.case(("direction-history",), nontrivial=True, kind="public-path:direction-history")
        same = lambda x, y: len(x) == len(y) and (len(x) == 0 or float(np.max(np.abs(x - y))) == 0.0)
        if not (same(b, fb) and same(c, a)):
            ctx.violation("public-path-direction-history",
                          "SynodicMap.compute(direction=-1) after compute(direction=+1) on the same object returns %d hits at %r; a fresh object returns %d hits at %r" % (
                              len(b), b[:4].tolist(), len(fb), fb[:4].tolist()),
                          {"history": ["compute(direction=+1)", "compute(direction=-1)", "compute(direction=+1)"], "times_after_history": b.tolist(),
                           "times_fresh_object": fb.tolist(), "times_direction_plus": a.tolist()})
    except Exception:
        import traceback
        ctx.broken.append(("pipeline-paths:direction-history", traceback.format_exc()[-800:]))
        ctx.obligations["pipeline-paths:direction-history"] = False


PROP_MODULES = ["HitenModel.Props.C15"]
SRC_MODULES = ["HitenModel.Props.C15", "HitenModel.Gen.C15", "HitenModel.Core.C15", "HitenModel.Lemmas.C15",
               "HitenModel.Lemmas.C15Gen", "HitenModel.Lemmas.C15Real", "HitenModel.Lemmas.REReal", "HitenModel.Core.RE"]


def run(ctx):
    tr = ctx.guard("regenerate", gen, ctx)
    ok = ctx.lean_build(PROP_MODULES)
    if ok:
        ctx.lean_audit(PROP_MODULES, SRC_MODULES)
        if ctx.thorough():
            ctx.leanchecker(PROP_MODULES)
    from hiten.algorithms.poincare.synodic.backend import _SynodicDetectionBackend
    backend = _SynodicDetectionBackend()
    if tr is not None:
        ctx.guard("validate_traces", validate_traces, ctx, tr)
    cases = ctx.guard("correspondence", correspondence, ctx, backend)
    if cases is None:   # the oracle sweep needs inputs even when the model side of the correspondence is unavailable
        cases = exact_cases(ctx)
    # independent reading of the property on the real outputs: supporting evidence when everything holds, failing-input
    # search when an obligation or the correspondence broke
    oracle_sweep(ctx, backend, cases)
    refine_endpoint_check(ctx, backend)
    convergence(ctx, backend)
    crtbp_convergence(ctx, backend)
    public_path(ctx, backend)
    if not ctx.violations:
        pipeline_paths(ctx, backend)
    ctx.rule = ("exact: every sign pattern in {-,0,+}^N (N<=6 quick / <=8 thorough, sampled above) with magnitudes {1,3} on dyadic "
                "non-uniform grids x directions {None,+1,-1} x tol {2^-10,0,2} x dedup tolerances {0,2^-20,large} x max_hits x "
                "segment_refine {0,1,3}; approx: random float trajectories, refine 0..6, cubic with 0..3 Newton updates; a case is "
                "non-trivial when the detector reports at least one hit; distinct by (pattern, direction, refine, interpolation, tolerances)")
    ctx.assumptions += [
        "model arithmetic is exact (Q); the float code is compared exactly on dyadic inputs with dyadic quotients, to 1e-11 (linear) / 1e-9 (cubic) otherwise",
        "sample times strictly increasing in the correspondence (division by t[k+1]-t[k-1] = 0 is not modelled); hits_ordered / hits_ordered_backward cover non-decreasing resp. non-increasing stamps (one grid in four of the correspondence is decreasing)",
        "the guard `s_hi > 1 + 1e-15` of the refine loop never fires in exact arithmetic and is not modelled",
        "convergence orders (2 for linear, >=3 for cubic on uniform grids) are measured, not proved",
    ]


def replay(ctx, rec):
    """Re-run one recorded failing detector call on the real code (exact cases go through the oracle again); anything else
    re-runs the whole check."""
    inp = (rec.get("replay") or {}).get("input")
    if not inp:
        return run(ctx)
    from hiten.algorithms.poincare.synodic.backend import _SynodicDetectionBackend
    backend = _SynodicDetectionBackend()
    kw = inp["kwargs"]
    pc = (COORD.index(kw["plane_coords"][0]), COORD.index(kw["plane_coords"][1]))
    c = Case([F(t) for t in inp["times"]], [[F(v) for v in x] for x in inp["states"]], [F(v) for v in kw["normal"]],
             F(kw["offset"]), kw["direction"], F(kw["tol_on_surface"]), F(kw["dedup_time_tol"]), F(kw["dedup_point_tol"]),
             kw["max_hits_per_traj"], pc, kw["interp_kind"] == "cubic", int(kw["segment_refine"]), int(kw["newton_max_iter"]),
             True, tag=inp.get("tag", "replay"))
    real = run_real(backend, c)
    ctx.log("replayed call returns hits (time, state):", [[t] + x for t, x, p in real])
    ctx.case(("replay", c.tag), kind="replay")
    if rec.get("key") in ("refine-step-rounding-last-sample", "final-sample-crossing-missed"):
        if len(real) != 1 or real[0][0] != float(c.times[-1]):
            ctx.violation(rec["key"], rec.get("what", ""), {"input": c.replay(), "observed_hits": real, "expected": "one hit at the final sample"})
        return
    r = oracle(c, real) if not c.cubic else None
    if r:
        ctx.violation(r[0], r[1], {"input": c.replay(), "observed_hits": [[t] + x for t, x, p in real], "expected": r[1]})
