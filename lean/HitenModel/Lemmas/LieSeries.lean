/-
  Lemmas/LieSeries.lean — the Lie series of a generator on K[q1,q2,q3,p1,p2,p3] (Mathlib `MvPolynomial`, K a field of characteristic 0):
  order filtration, the bracket raises the order, general Leibniz rule for the iterated bracket, and the main facts
  `lie_series_multiplicative` / `lie_series_is_composition`: modulo terms of degree > N the series truncated after N brackets is a ring
  homomorphism, hence transforming a polynomial is composing it with the transformed coordinates (C08, sentence 2: H_new = H_old ∘ Φ).
-/
import HitenModel.Lemmas.C08Mv
import Mathlib.Algebra.BigOperators.NatAntidiagonal
import Mathlib.Data.Nat.Choose.Sum
import Mathlib.Data.Finsupp.Weight
import Mathlib.Tactic.FieldSimp
import Mathlib.Tactic.LinearCombination
import Mathlib.Tactic.Ring

set_option linter.unusedSectionVars false

namespace HitenModel.LieSeries
open MvPolynomial Finset

variable {K : Type} [Field K] [DecidableEq K]

/-- order filtration: every monomial of `f` has total degree at least `k` -/
def Ord (k : ℕ) (f : MvPolynomial (Fin 6) K) : Prop := ∀ m ∈ f.support, k ≤ m.degree

theorem Ord.mono {k l : ℕ} {f : MvPolynomial (Fin 6) K} (h : Ord k f) (hl : l ≤ k) : Ord l f :=
  fun m hm => le_trans hl (h m hm)

theorem ord_zero (f : MvPolynomial (Fin 6) K) : Ord 0 f := fun _ _ => Nat.zero_le _

theorem Ord.add {k : ℕ} {f g : MvPolynomial (Fin 6) K} (hf : Ord k f) (hg : Ord k g) : Ord k (f + g) := by
  intro m hm
  classical
  rcases Finset.mem_union.mp (MvPolynomial.support_add hm) with h | h
  · exact hf m h
  · exact hg m h

theorem Ord.neg {k : ℕ} {f : MvPolynomial (Fin 6) K} (hf : Ord k f) : Ord k (-f) := by
  intro m hm
  rw [MvPolynomial.support_neg] at hm
  exact hf m hm

theorem Ord.sub {k : ℕ} {f g : MvPolynomial (Fin 6) K} (hf : Ord k f) (hg : Ord k g) : Ord k (f - g) := by
  rw [sub_eq_add_neg]; exact hf.add hg.neg

theorem Ord.mul {k l : ℕ} {f g : MvPolynomial (Fin 6) K} (hf : Ord k f) (hg : Ord l g) : Ord (k + l) (f * g) := by
  intro m hm
  classical
  have := MvPolynomial.support_mul f g hm
  obtain ⟨a, ha, b, hb, rfl⟩ := Finset.mem_add.mp this
  rw [map_add]
  exact Nat.add_le_add (hf a ha) (hg b hb)

theorem Ord.smul {k : ℕ} {f : MvPolynomial (Fin 6) K} (hf : Ord k f) (c : K) : Ord k (c • f) := by
  intro m hm
  exact hf m (MvPolynomial.support_smul hm)

theorem Ord.sum {ι : Type} {k : ℕ} (s : Finset ι) (F : ι → MvPolynomial (Fin 6) K) (h : ∀ i ∈ s, Ord k (F i)) :
    Ord k (∑ i ∈ s, F i) := by
  classical
  induction s using Finset.induction_on with
  | empty => intro m hm; simp at hm
  | insert a s ha ih =>
    rw [Finset.sum_insert ha]
    exact (h a (Finset.mem_insert_self a s)).add (ih fun i hi => h i (Finset.mem_insert_of_mem hi))

/-- a polynomial of order `> d` has no coefficient in degree `d` -/
theorem Ord.coeff_eq_zero {k : ℕ} {f : MvPolynomial (Fin 6) K} (hf : Ord k f) (m : Fin 6 →₀ ℕ) (hm : m.degree < k) :
    MvPolynomial.coeff m f = 0 := by
  by_contra h
  have := hf m (MvPolynomial.mem_support_iff.mpr h)
  omega

/-- differentiation lowers the order by at most one -/
theorem Ord.of_pderiv {k : ℕ} {f : MvPolynomial (Fin 6) K} (hf : Ord k f) (i : Fin 6) : Ord (k - 1) (pderiv i f) := by
  intro m hm
  have hc : coeff m (pderiv i f) ≠ 0 := MvPolynomial.mem_support_iff.mp hm
  rw [coeff_pderiv] at hc
  have h1 : coeff (m + Finsupp.single i 1) f ≠ 0 := fun h0 => hc (by rw [h0]; simp)
  have := hf _ (MvPolynomial.mem_support_iff.mpr h1)
  rw [map_add, Finsupp.degree_single] at this
  omega

/-! ### the adjoint action of a generator -/

/-- `ad G = {·, G}` as a linear map -/
noncomputable def ad (G : MvPolynomial (Fin 6) K) : MvPolynomial (Fin 6) K →ₗ[K] MvPolynomial (Fin 6) K :=
  ((LinearMap.mulRight K (pderiv 3 G)) ∘ₗ (pderiv 0).toLinearMap - (LinearMap.mulRight K (pderiv 0 G)) ∘ₗ (pderiv 3).toLinearMap)
  + (((LinearMap.mulRight K (pderiv 4 G)) ∘ₗ (pderiv 1).toLinearMap - (LinearMap.mulRight K (pderiv 1 G)) ∘ₗ (pderiv 4).toLinearMap)
  + ((LinearMap.mulRight K (pderiv 5 G)) ∘ₗ (pderiv 2).toLinearMap - (LinearMap.mulRight K (pderiv 2 G)) ∘ₗ (pderiv 5).toLinearMap))

theorem ad_apply (G f : MvPolynomial (Fin 6) K) : ad G f = HitenModel.C08.PB f G := by
  simp [ad, HitenModel.C08.PB]

theorem ad_mul (G f g : MvPolynomial (Fin 6) K) : ad G (f * g) = f * ad G g + ad G f * g := by
  rw [ad_apply, ad_apply, ad_apply]
  exact HitenModel.C08.PB_mul_left f g G

/-- the bracket with a generator of order `≥ 3` raises the order by at least one -/
theorem Ord.of_ad {k : ℕ} {G f : MvPolynomial (Fin 6) K} (hG : Ord 3 G) (hf : Ord k f) : Ord (k + 1) (ad G f) := by
  rw [ad_apply]
  unfold HitenModel.C08.PB
  have h : ∀ i j : Fin 6, Ord (k + 1) (pderiv i f * pderiv j G) := fun i j =>
    ((hf.of_pderiv i).mul (hG.of_pderiv j)).mono (by omega)
  exact ((h 0 3).sub (h 3 0)).add (((h 1 4).sub (h 4 1)).add ((h 2 5).sub (h 5 2)))

theorem Ord.of_ad_iterate {k : ℕ} {G f : MvPolynomial (Fin 6) K} (hG : Ord 3 G) (hf : Ord k f) (n : ℕ) :
    Ord (k + n) ((ad G)^[n] f) := by
  induction n with
  | zero => simpa using hf
  | succ n ih =>
    rw [Function.iterate_succ_apply']
    have := Ord.of_ad hG ih
    rwa [Nat.add_assoc] at this

open Nat in
/-- general Leibniz rule for the iterated bracket -/
theorem ad_iterate_mul (G f g : MvPolynomial (Fin 6) K) (n : ℕ) :
    (ad G)^[n] (f * g) = ∑ ij ∈ antidiagonal n, choose n ij.1 • ((ad G)^[ij.1] f * (ad G)^[ij.2] g) := by
  induction n with
  | zero => simp
  | succ n ih =>
    rw [sum_antidiagonal_choose_succ_nsmul (M := MvPolynomial (Fin 6) K) (fun i j => (ad G)^[i] f * (ad G)^[j] g) n]
    simp only [Function.iterate_succ_apply', ih, map_sum, map_nsmul, ad_mul, smul_add, sum_add_distrib, add_right_inj]
    refine sum_congr rfl fun ⟨i, j⟩ hij => ?_
    rw [n.choose_symm_of_eq_add (mem_antidiagonal.1 hij).symm]

/-! ### the truncated Lie series is multiplicative modulo terms of degree `> N` -/

variable [CharZero K]

/-- the Lie series `Σ_{n ≤ N} (1/n!) ad_G^n f` -/
noncomputable def lieSum (N : ℕ) (G f : MvPolynomial (Fin 6) K) : MvPolynomial (Fin 6) K :=
  ∑ n ∈ range (N + 1), ((n.factorial : K)⁻¹) • (ad G)^[n] f

/-- the `n`-th term of the series -/
noncomputable def term (G f : MvPolynomial (Fin 6) K) (n : ℕ) : MvPolynomial (Fin 6) K := ((n.factorial : K)⁻¹) • (ad G)^[n] f

theorem term_ord {G f : MvPolynomial (Fin 6) K} (hG : Ord 3 G) (n : ℕ) : Ord n (term G f n) := by
  have := (Ord.of_ad_iterate hG (ord_zero f) n).smul ((n.factorial : K)⁻¹)
  simpa [term] using this

theorem lieSum_mul_expand (N : ℕ) (G f g : MvPolynomial (Fin 6) K) :
    lieSum N G (f * g) = ∑ n ∈ range (N + 1), ∑ ij ∈ antidiagonal n, term G f ij.1 * term G g ij.2 := by
  unfold lieSum
  refine sum_congr rfl fun n _ => ?_
  rw [ad_iterate_mul, smul_sum]
  refine sum_congr rfl fun ⟨i, j⟩ hij => ?_
  have hn : i + j = n := mem_antidiagonal.1 hij
  subst hn
  simp only [term]
  rw [Algebra.smul_mul_assoc, Algebra.mul_smul_comm, smul_smul, ← Nat.cast_smul_eq_nsmul K, smul_smul]
  congr 1
  have hi : ((i.factorial : K)) ≠ 0 := Nat.cast_ne_zero.mpr (Nat.factorial_ne_zero i)
  have hj : ((j.factorial : K)) ≠ 0 := Nat.cast_ne_zero.mpr (Nat.factorial_ne_zero j)
  have hij' : (((i + j).factorial : K)) ≠ 0 := Nat.cast_ne_zero.mpr (Nat.factorial_ne_zero _)
  have hc : (((i + j).choose i : ℕ) : K) * (i.factorial : K) * (j.factorial : K) = ((i + j).factorial : K) := by
    have h0 := Nat.add_choose_mul_factorial_mul_factorial i j
    rw [← Nat.choose_symm_add] at h0
    exact_mod_cast h0
  field_simp
  exact hc

theorem lieSum_eq_sum_term (N : ℕ) (G f : MvPolynomial (Fin 6) K) : lieSum N G f = ∑ n ∈ range (N + 1), term G f n := rfl

/-- the antidiagonals below `N` are the part `i + j ≤ N` of the square -/
theorem sum_antidiagonals_eq_filter (N : ℕ) (F : ℕ × ℕ → MvPolynomial (Fin 6) K) :
    ∑ n ∈ range (N + 1), ∑ ij ∈ antidiagonal n, F ij =
      ∑ p ∈ ((range (N + 1)) ×ˢ (range (N + 1))).filter (fun p => p.1 + p.2 ≤ N), F p := by
  rw [← Finset.sum_biUnion]
  · refine sum_congr ?_ fun _ _ => rfl
    ext ⟨i, j⟩
    simp only [mem_biUnion, mem_range, mem_antidiagonal, mem_filter, mem_product]
    constructor
    · rintro ⟨n, hn, h⟩; omega
    · rintro ⟨_, h⟩; exact ⟨i + j, by omega, rfl⟩
  · intro a _ b _ hab
    simp only [Function.onFun]
    rw [Finset.disjoint_left]
    intro p hp hq
    exact hab ((mem_antidiagonal.1 hp).symm.trans (mem_antidiagonal.1 hq))

/-- **lie_series_multiplicative**: for a generator without terms of degree `< 3`, the Lie series truncated after `N` brackets is
multiplicative modulo terms of degree `> N`: every coefficient of degree `≤ N` of `exp(ad_G)(f·g)` and of `exp(ad_G) f · exp(ad_G) g`
agree.  (Leibniz rule for the iterated bracket + the bracket raises the order; the dropped cross terms have order `> N`.) -/
theorem lie_series_multiplicative (N : ℕ) (G f g : MvPolynomial (Fin 6) K) (hG : Ord 3 G) (m : Fin 6 →₀ ℕ) (hm : m.degree ≤ N) :
    MvPolynomial.coeff m (lieSum N G (f * g)) = MvPolynomial.coeff m (lieSum N G f * lieSum N G g) := by
  set F : ℕ × ℕ → MvPolynomial (Fin 6) K := fun p => term G f p.1 * term G g p.2 with hF
  have e1 : lieSum N G (f * g) = ∑ p ∈ ((range (N + 1)) ×ˢ (range (N + 1))).filter (fun p => p.1 + p.2 ≤ N), F p := by
    rw [lieSum_mul_expand, sum_antidiagonals_eq_filter N F]
  have e2 : lieSum N G f * lieSum N G g = ∑ p ∈ (range (N + 1)) ×ˢ (range (N + 1)), F p := by
    rw [lieSum_eq_sum_term, lieSum_eq_sum_term, Finset.sum_mul_sum, ← Finset.sum_product']
  have e3 : ∑ p ∈ (range (N + 1)) ×ˢ (range (N + 1)), F p =
      ∑ p ∈ ((range (N + 1)) ×ˢ (range (N + 1))).filter (fun p => p.1 + p.2 ≤ N), F p +
      ∑ p ∈ ((range (N + 1)) ×ˢ (range (N + 1))).filter (fun p => ¬ p.1 + p.2 ≤ N), F p :=
    (Finset.sum_filter_add_sum_filter_not _ _ _).symm
  have hhigh : Ord (N + 1) (∑ p ∈ ((range (N + 1)) ×ˢ (range (N + 1))).filter (fun p => ¬ p.1 + p.2 ≤ N), F p) := by
    refine Ord.sum _ _ fun p hp => ?_
    have hp' : N + 1 ≤ p.1 + p.2 := by
      have := (mem_filter.mp hp).2; omega
    exact ((term_ord hG p.1).mul (term_ord hG p.2)).mono hp'
  rw [e2, e3, e1, MvPolynomial.coeff_add, hhigh.coeff_eq_zero m (by omega), add_zero]

/-! ### consequence: the transformed polynomial is the composition with the transformed coordinates -/

/-- congruence modulo terms of degree `> N` -/
def Cong (N : ℕ) (A B : MvPolynomial (Fin 6) K) : Prop := Ord (N + 1) (A - B)

theorem Cong.refl (N : ℕ) (A : MvPolynomial (Fin 6) K) : Cong N A A := by
  unfold Cong; rw [sub_self]; intro m hm; simp at hm

theorem Cong.trans {N : ℕ} {A B C : MvPolynomial (Fin 6) K} (h1 : Cong N A B) (h2 : Cong N B C) : Cong N A C := by
  unfold Cong at *
  have := h1.add h2
  rwa [sub_add_sub_cancel] at this

theorem Cong.add {N : ℕ} {A B A' B' : MvPolynomial (Fin 6) K} (h1 : Cong N A A') (h2 : Cong N B B') : Cong N (A + B) (A' + B') := by
  unfold Cong at *
  have := h1.add h2
  rwa [show A - A' + (B - B') = A + B - (A' + B') by ring] at this

theorem Cong.mul_right {N : ℕ} {A A' : MvPolynomial (Fin 6) K} (h : Cong N A A') (B : MvPolynomial (Fin 6) K) : Cong N (A * B) (A' * B) := by
  unfold Cong at *
  have := h.mul (ord_zero B)
  rwa [show (A - A') * B = A * B - A' * B by ring] at this

theorem Cong.coeff_eq {N : ℕ} {A B : MvPolynomial (Fin 6) K} (h : Cong N A B) (m : Fin 6 →₀ ℕ) (hm : m.degree ≤ N) :
    MvPolynomial.coeff m A = MvPolynomial.coeff m B := by
  have := Ord.coeff_eq_zero h m (by omega)
  rw [MvPolynomial.coeff_sub] at this
  exact sub_eq_zero.mp this

/-- multiplicativity as a congruence -/
theorem lieSum_mul_cong (N : ℕ) (G f g : MvPolynomial (Fin 6) K) (hG : Ord 3 G) :
    Cong N (lieSum N G (f * g)) (lieSum N G f * lieSum N G g) := by
  intro m hm
  by_contra hlt
  have hd : m.degree ≤ N := by omega
  have hc := lie_series_multiplicative N G f g hG m hd
  have : MvPolynomial.coeff m (lieSum N G (f * g) - lieSum N G f * lieSum N G g) = 0 := by
    rw [MvPolynomial.coeff_sub, hc, sub_self]
  exact (MvPolynomial.mem_support_iff.mp hm) this

theorem lieSum_add (N : ℕ) (G f g : MvPolynomial (Fin 6) K) : lieSum N G (f + g) = lieSum N G f + lieSum N G g := by
  unfold lieSum
  rw [← sum_add_distrib]
  have hit : ∀ n, (ad G)^[n] (f + g) = (ad G)^[n] f + (ad G)^[n] g := by
    intro n
    induction n with
    | zero => simp
    | succ n ih => rw [Function.iterate_succ_apply', Function.iterate_succ_apply', Function.iterate_succ_apply', ih, map_add]
  refine sum_congr rfl fun n _ => ?_
  rw [← smul_add, hit n]

theorem ad_C (G : MvPolynomial (Fin 6) K) (a : K) : ad G (C a) = 0 := by
  rw [ad_apply]; simp [HitenModel.C08.PB]

theorem lieSum_C (N : ℕ) (G : MvPolynomial (Fin 6) K) (a : K) : lieSum N G (C a) = C a := by
  unfold lieSum
  rw [Finset.sum_range_succ']
  have : ∀ n, (ad G)^[n + 1] (C a) = 0 := by
    intro n
    rw [Function.iterate_succ_apply, ad_C]
    induction n with
    | zero => rfl
    | succ n ih => rw [Function.iterate_succ_apply', ih, map_zero]
  simp [this]

/-- **lie_series_is_composition**: modulo terms of degree `> N`, transforming a polynomial `H` with the Lie series of `G` is composing `H`
with the transformed coordinates `Φ_i = exp(ad_G) x_i`: `exp(ad_G) H ≡ H ∘ Φ`.  (The algebraic content of "H_new = H_old ∘ Φ" — C08,
sentence 2 — for one generator; a normal form applies it for the generators of degree 3, 4, …, N in turn.) -/
theorem lie_series_is_composition (N : ℕ) (G : MvPolynomial (Fin 6) K) (hG : Ord 3 G) (H : MvPolynomial (Fin 6) K) :
    Cong N (lieSum N G H) (MvPolynomial.aeval (fun i => lieSum N G (X i)) H) := by
  induction H using MvPolynomial.induction_on with
  | C a => rw [lieSum_C, MvPolynomial.aeval_C]; exact Cong.refl N _
  | add p q hp hq => rw [lieSum_add, map_add]; exact hp.add hq
  | mul_X p i hp =>
    rw [map_mul, MvPolynomial.aeval_X]
    exact (lieSum_mul_cong N G p (X i) hG).trans (hp.mul_right _)

end HitenModel.LieSeries
