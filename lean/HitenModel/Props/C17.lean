/-
  Props/C17.lean — property C17: Hamiltonian fast paths agree with the generic integration path.

  `Gen.C17` is regenerated from /repo on every run:
    * `rhsWiring`, `rhsSrc`      — `_hamiltonian_rhs` executed on symbolic data with `_polynomial_evaluate` recorded: which
                                    Jacobian entry lands in which output component with which sign, evaluated at which point;
    * `dQIdx/dQPoint`, `dPIdx/dPPoint`, `hderWiring/hderPoint`
                                  — the same for `_eval_dH_dQ`, `_eval_dH_dP` (through the real `_construct_6d_eval_point`
                                    and the live `Q_POLY_INDICES`/`P_POLY_INDICES`) and `_eval_hamiltonian_derivative`;
    * `*_gen`, `*_ham`            — canonical traces of every straight-line twin pair of `integrators/rk.py` (stepping kernels,
                                    fixed-grid drivers, fixed-step event drivers, DOP853 dense-cache builders and in-step
                                    refinement) run on symbolic data with one recording vector field / event function.
  The polynomial model (`Core/C17.lean`: monomial lists, `Poly.eval`, `Poly.diff`, `jacobian`) is tied to
  `_polynomial_evaluate` / `_polynomial_jacobian` by the exact correspondence run of `harness/props/c17.py`.
  `Lemmas/C17.lean` identifies the model with Mathlib's `MvPolynomial ℕ R` (`toMv`), `Poly.eval` with `MvPolynomial.eval`
  and `Poly.diff` with the formal partial derivative `MvPolynomial.pderiv`.
-/
import HitenModel.Gen.C17
import HitenModel.Lemmas.C17
import HitenModel.Lemmas.C17Real

namespace HitenModel.Props.C17
open HitenModel HitenModel.C17 MvPolynomial

section Rhs
variable {R : Type} [CommRing R]

/-- ∂H/∂z_i at the state `z`, with Mathlib's formal partial derivative of the polynomial denoted by `H` -/
noncomputable def dH (H : Poly R) (i : ℕ) (z : ℕ → R) : R := eval z (pderiv i (toMv H))

theorem rhsSrc_id (j : ℕ) : Gen.C17.rhsSrc[j]?.getD j = j := by
  unfold Gen.C17.rhsSrc
  rcases j with _ | _ | _ | _ | _ | _ | j <;> simp

/-- **Sentence 1.** For every polynomial `H` over every commutative ring and every state, the right-hand side computed
    by the traced `_hamiltonian_rhs` from the Jacobian list is `(∂H/∂P, −∂H/∂Q)`: Hamilton's equations. -/
theorem rhs_is_hamilton (H : Poly R) (z : ℕ → R) :
    rhsBy Gen.C17.rhsWiring Gen.C17.rhsSrc (jacobian Gen.C17.nVars H) z =
      [dH H 3 z, dH H 4 z, dH H 5 z, -dH H 0 z, -dH H 1 z, -dH H 2 z] := by
  simp [rhsBy, rhsSrc_id, Gen.C17.rhsWiring, Gen.C17.nVars, jacobian_getD, applySign, eval_diff, dH]

/-- the evaluation point built by `_construct_6d_eval_point` from `(Q, P)` is the state `Q ++ P` -/
theorem point_is_state (q0 q1 q2 p0 p1 p2 : R) :
    pointBy Gen.C17.dQPoint [q0, q1, q2] [p0, p1, p2] = (fun j => ([q0, q1, q2] ++ [p0, p1, p2]).getD j 0) ∧
    pointBy Gen.C17.dPPoint [q0, q1, q2] [p0, p1, p2] = (fun j => ([q0, q1, q2] ++ [p0, p1, p2]).getD j 0) ∧
    pointBy Gen.C17.hderPoint [q0, q1, q2] [p0, p1, p2] = (fun j => ([q0, q1, q2] ++ [p0, p1, p2]).getD j 0) := by
  refine ⟨?_, ?_, ?_⟩ <;> funext j <;>
    rcases j with _ | _ | _ | _ | _ | _ | j <;>
    simp [pointBy, Gen.C17.dQPoint, Gen.C17.dPPoint, Gen.C17.hderPoint]

/-- **Sentence 1, second half.** The separate evaluators `_eval_dH_dQ`, `_eval_dH_dP` return `∂H/∂Q`, `∂H/∂P` at the
    state `(Q, P)`, so the right-hand side is `dH_dP ++ −dH_dQ`; `_eval_hamiltonian_derivative` (the derivative used by
    the symplectic event path) is the same vector. -/
theorem evaluators_agree (H : Poly R) (q0 q1 q2 p0 p1 p2 : R) :
    let Q := [q0, q1, q2]
    let P := [p0, p1, p2]
    let z : ℕ → R := fun j => (Q ++ P).getD j 0
    let jac := jacobian Gen.C17.nVars H
    gradBy Gen.C17.dQIdx Gen.C17.dQPoint jac Q P = [dH H 0 z, dH H 1 z, dH H 2 z] ∧
    gradBy Gen.C17.dPIdx Gen.C17.dPPoint jac Q P = [dH H 3 z, dH H 4 z, dH H 5 z] ∧
    rhsBy Gen.C17.rhsWiring Gen.C17.rhsSrc jac z =
      gradBy Gen.C17.dPIdx Gen.C17.dPPoint jac Q P ++ (gradBy Gen.C17.dQIdx Gen.C17.dQPoint jac Q P).map Neg.neg ∧
    hderBy Gen.C17.hderWiring Gen.C17.hderPoint jac Q P = rhsBy Gen.C17.rhsWiring Gen.C17.rhsSrc jac z := by
  intro Q P z jac
  obtain ⟨h1, h2, h3⟩ := point_is_state q0 q1 q2 p0 p1 p2
  have hq : gradBy Gen.C17.dQIdx Gen.C17.dQPoint jac Q P = [dH H 0 z, dH H 1 z, dH H 2 z] := by
    simp only [gradBy, Q, P, h1]
    simp [jac, Gen.C17.dQIdx, Gen.C17.nVars, jacobian_getD, eval_diff, dH, z, Q, P]
  have hp : gradBy Gen.C17.dPIdx Gen.C17.dPPoint jac Q P = [dH H 3 z, dH H 4 z, dH H 5 z] := by
    simp only [gradBy, Q, P, h2]
    simp [jac, Gen.C17.dPIdx, Gen.C17.nVars, jacobian_getD, eval_diff, dH, z, Q, P]
  have hr := rhs_is_hamilton H z
  refine ⟨hq, hp, ?_, ?_⟩
  · rw [hq, hp]; simpa [jac] using hr
  · have : hderBy Gen.C17.hderWiring Gen.C17.hderPoint jac Q P
        = [dH H 3 z, dH H 4 z, dH H 5 z, -dH H 0 z, -dH H 1 z, -dH H 2 z] := by
      simp only [hderBy, Q, P, h3]
      simp [jac, Gen.C17.hderWiring, Gen.C17.nVars, jacobian_getD, applySign, eval_diff, dH, z, Q, P]
    rw [this]; simpa [jac] using hr.symm

/-- the index maps the evaluators use are the live `Q_POLY_INDICES`, `P_POLY_INDICES`; together they enumerate the
    `2·n_dof` variables once -/
theorem index_maps :
    Gen.C17.dQIdx = Gen.C17.qIdx ∧ Gen.C17.dPIdx = Gen.C17.pIdx ∧
    Gen.C17.qIdx ++ Gen.C17.pIdx = List.range Gen.C17.nVars ∧ Gen.C17.nVars = 2 * Gen.C17.nDof := by decide

end Rhs

/-- **Complex coefficients.** The packed polynomials carry `complex128` coefficients and the code keeps `.real` of each
    value: at a real state that is the Hamilton field of the real-part polynomial. -/
theorem rhs_complex_coefficients (H : Poly ℂ) (z : ℕ → ℝ) :
    (rhsBy Gen.C17.rhsWiring Gen.C17.rhsSrc (jacobian Gen.C17.nVars H) (fun j => (z j : ℂ))).map Complex.re =
      rhsBy Gen.C17.rhsWiring Gen.C17.rhsSrc (jacobian Gen.C17.nVars (reP H)) z := by
  simp [rhsBy, rhsSrc_id, Gen.C17.rhsWiring, Gen.C17.nVars, jacobian_getD, applySign, re_eval, reP_diff]

/-- **Hamilton's equations, analytically.** Over ℝ the quantity `dH H i z` of `rhs_is_hamilton` is the partial derivative of
    the polynomial *function* `z ↦ H(z)` with respect to coordinate `i`: `q̇ᵢ = ∂H/∂pᵢ`, `ṗᵢ = −∂H/∂qᵢ` in the classical sense. -/
theorem dH_is_partial_derivative (H : Poly ℝ) (z : ℕ → ℝ) (i : ℕ) :
    HasDerivAt (fun s => Poly.eval (Function.update z i s) H) (dH H i z) (z i) := by
  have h := eval_hasDerivAt H z i
  rwa [eval_diff] at h

/-- non-vacuity: `H = 3·q₀²·p₀ − 2·q₁·q₂·p₂` at `(1,2,3,½,1,−1)` gives `q̇₀ = ∂H/∂p₀ = 3`, `ṗ₀ = −∂H/∂q₀ = −3` -/
example : rhsBy Gen.C17.rhsWiring Gen.C17.rhsSrc
    (jacobian Gen.C17.nVars ([⟨3, [2, 0, 0, 1, 0, 0]⟩, ⟨-2, [0, 1, 1, 0, 0, 1]⟩] : Poly ℚ))
    (fun j => ([1, 2, 3, 1/2, 1, -1] : List ℚ).getD j 0) = [3, 0, -12, -3, -6, -4] := by
  simp [rhsBy, Gen.C17.rhsWiring, Gen.C17.rhsSrc, Gen.C17.nVars, jacobian, Poly.diff, Mono.diff, decAt, applySign,
    Poly.eval, Mono.eval, monoVal, pw, List.range, List.range.loop]
  norm_num

/-! ## Sentence 2: a driver sees the vector field only through its values -/

open Prog in
/-- **Oracle congruence.** Two vector fields that agree on the states a deterministic driver queries produce the same
    result and the same transcript: the Hamiltonian fast path (oracle `_hamiltonian_rhs`) and the generic path fed with
    any function that computes Hamilton's equations are indistinguishable to every driver. -/
theorem twin_agree {S A O : Type} (p : Prog S A O) (f g : S → A)
    (h : ∀ qa ∈ p.transcript f, g qa.1 = qa.2) :
    p.run g = p.run f ∧ p.transcript g = p.transcript f := by
  induction p with
  | ret o => exact ⟨rfl, rfl⟩
  | ask q k ih =>
    have hq : g q = f q := h (q, f q) (by simp [transcript])
    have := ih (f q) (fun qa hqa => h qa (by simp [transcript, hqa]))
    simp [run, transcript, hq, this.1, this.2]

/-- in particular: extensionally equal fields cannot be told apart -/
theorem twin_agree_ext {S A O : Type} (p : Prog S A O) (f g : S → A) (h : ∀ q, g q = f q) :
    p.run g = p.run f ∧ p.transcript g = p.transcript f :=
  twin_agree p f g (fun qa hqa => by
    have : ∀ (p : Prog S A O), ∀ qa ∈ p.transcript f, qa.2 = f qa.1 := by
      intro p
      induction p with
      | ret o => intro qa h; simp [Prog.transcript] at h
      | ask q k ih =>
        intro qa h
        simp only [Prog.transcript, List.mem_cons] at h
        rcases h with h | h
        · subst h; rfl
        · exact ih _ _ h
    rw [this p qa hqa]; exact h _)

/-- **Derivatives.** The fixed-grid driver (`_integrate_fixed_rk(_ham)`) returns at every node the vector field
    evaluated at the returned state. -/
theorem fixedDriver_derivs {R : Type} [Add R] [Mul R] (A : List (List R)) (B : List R) (f : List R → List R)
    (hs : List R) (y : List R) :
    ∀ yd ∈ (fixedDriver A B hs y).run f, yd.2 = f yd.1 := by
  induction hs generalizing y with
  | nil => intro yd h; simp [fixedDriver, Prog.run] at h; subst h; rfl
  | cons h hs ih =>
    intro yd hyd
    simp only [fixedDriver, Prog.run, Prog.run_bind, List.mem_cons] at hyd
    rcases hyd with hyd | hyd
    · subst hyd; rfl
    · exact ih _ _ hyd

/-- non-vacuity: a two-step run of the model driver with a concrete field queries and returns something -/
example : ((fixedDriver (R := Int) [[], [1]] [1, 1] [1, 2] [3]).run fun y => y.map (· * 2)).length = 3 := by decide
example : ((fixedDriver (R := Int) [[], [1]] [1, 1] [1, 2] [3]).transcript fun y => y.map (· * 2)).length = 7 := by decide

/-! ## Sentence 2: the straight-line twins are the same program (canonical traces regenerated from the source) -/

theorem step_twins_equal :
    Gen.C17.step_fixed4_ham = Gen.C17.step_fixed4_gen ∧ Gen.C17.step_fixed6_ham = Gen.C17.step_fixed6_gen ∧
    Gen.C17.step_fixed8_ham = Gen.C17.step_fixed8_gen ∧ Gen.C17.step_rk45_ham = Gen.C17.step_rk45_gen ∧
    Gen.C17.step_dop853_ham = Gen.C17.step_dop853_gen := by
  refine ⟨?_, ?_, ?_, ?_, ?_⟩ <;> decide +kernel

theorem fixed_driver_twins_equal :
    Gen.C17.driver_fixed4_ham = Gen.C17.driver_fixed4_gen ∧ Gen.C17.driver_fixed6_ham = Gen.C17.driver_fixed6_gen ∧
    Gen.C17.driver_fixed8_ham = Gen.C17.driver_fixed8_gen := by
  refine ⟨?_, ?_, ?_⟩ <;> decide +kernel

theorem dense_cache_twins_equal : Gen.C17.dense_dop853_ham = Gen.C17.dense_dop853_gen := by decide +kernel

/-- fixed-step event drivers: same event-function queries, same arguments handed to the (shared) Hermite refinement,
    same outputs -/
theorem event_driver_twins_equal :
    Gen.C17.event_fixed4_ham = Gen.C17.event_fixed4_gen ∧ Gen.C17.event_fixed6_ham = Gen.C17.event_fixed6_gen ∧
    Gen.C17.event_fixed8_ham = Gen.C17.event_fixed8_gen := by
  refine ⟨?_, ?_, ?_⟩ <;> decide +kernel

/-- DOP853 in-step refinement (the Hamiltonian copy inlines the dense-cache construction): same extra stages, same
    bisection queries of the event function, same hit -/
theorem refine_twins_equal : Gen.C17.refine_dop853_ham = Gen.C17.refine_dop853_gen := by decide +kernel

/-- the twins issue the same number of distinct vector-field queries -/
theorem twin_query_counts :
    Gen.C17.step_fixed4_queries = (4, 4) ∧ Gen.C17.step_fixed6_queries = (7, 7) ∧ Gen.C17.step_fixed8_queries = (13, 13) ∧
    Gen.C17.step_rk45_queries = (7, 7) ∧ Gen.C17.step_dop853_queries = (13, 13) ∧
    Gen.C17.driver_fixed4_queries.1 = Gen.C17.driver_fixed4_queries.2 ∧
    Gen.C17.driver_fixed6_queries.1 = Gen.C17.driver_fixed6_queries.2 ∧
    Gen.C17.driver_fixed8_queries.1 = Gen.C17.driver_fixed8_queries.2 ∧
    Gen.C17.dense_dop853_queries = (3, 3) ∧ Gen.C17.refine_dop853_queries = (3, 3) ∧
    Gen.C17.event_fixed4_queries.1 = Gen.C17.event_fixed4_queries.2 ∧
    Gen.C17.event_fixed6_queries.1 = Gen.C17.event_fixed6_queries.2 ∧
    Gen.C17.event_fixed8_queries.1 = Gen.C17.event_fixed8_queries.2 := by
  refine ⟨?_, ?_, ?_, ?_, ?_, ?_, ?_, ?_, ?_, ?_, ?_, ?_, ?_⟩ <;> decide

end HitenModel.Props.C17
