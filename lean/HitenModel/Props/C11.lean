/-
  Props/C11.lean — property C11: event detection returns the first admissible crossing, on the trajectory.

  Model: `Core/C11.lean` (hand-written, polymorphic in the number type; executed at `Rat` by `Drivers/C11.lean` in the
  correspondence with the eight real drivers and five real refine loops on every run).  `Gen/C11.lean` is regenerated
  from /repo on every run: complete sign-class decision tables of `_event_crossed` / `_crossed_direction` (obtained by
  running their current python bodies on symbolic values; the recorded path conditions compare inputs with 0 only),
  the selection pattern of `_bisection_update`, the traced comparison of `_bracket_converged`, the live
  EventOptions / EventConfig validation.

  All theorems hold for every linearly ordered field `α` (ℚ, ℝ), every event function `g`, every dense-output curve
  `P`, every tolerance, every sequence of steps / every step oracle.  "First crossing" is proved at the resolution of
  the accepted integration steps (two crossings inside one step are invisible to any sign-change detector); the
  accuracy of the dense output `P` itself is C02's subject and is measured numerically here.
-/
import HitenModel.Gen.C11
import HitenModel.Lemmas.C11
import HitenModel.Lemmas.REReal

namespace HitenModel.Props.C11
open HitenModel HitenModel.C11

/-! ### the model's predicates are the source's predicates -/
section Source
variable {α : Type} [Field α] [LinearOrder α] [IsStrictOrderedRing α]

/-- for all inputs the model's `eventCrossed` equals the entry of the table traced from `_event_crossed` -/
theorem eventCrossed_matches_source (gp gn : α) (dir : Int) :
    tabLookup Gen.C11.eventCrossedTab (sgn gp) (sgn gn) (Int.sign dir) = some (eventCrossed gp gn dir) := by
  rw [eventCrossed_sgn]
  rcases sgn_mem gp with h1 | h1 | h1 <;> rcases sgn_mem gn with h2 | h2 | h2 <;>
  rcases intSign_cases dir with ⟨_, _, _, h3⟩ | ⟨_, h3⟩ | ⟨_, _, h3⟩ <;> rw [h1, h2, h3] <;> decide

/-- same for `_crossed_direction` -/
theorem crossedDirection_matches_source (gl gm : α) (dir : Int) :
    tabLookup Gen.C11.crossedDirectionTab (sgn gl) (sgn gm) (Int.sign dir) = some (crossedDirection gl gm dir) := by
  rw [crossedDirection_sgn]
  rcases sgn_mem gl with h1 | h1 | h1 <;> rcases sgn_mem gm with h2 | h2 | h2 <;>
  rcases intSign_cases dir with ⟨_, _, _, h3⟩ | ⟨_, h3⟩ | ⟨_, _, h3⟩ <;> rw [h1, h2, h3] <;> decide

/-- `_bisection_update` returns exactly the inputs the model returns, for both values of `crossed` -/
theorem bisectionUpdate_matches_source (a b gl mid gm : α) :
    Gen.C11.bisectionTab.map (·.1) = [true, false] ∧
    ∀ e ∈ Gen.C11.bisectionTab, bisectionUpdate a b gl mid gm e.1 =
      (sel5 a b gl mid gm e.2.1, sel5 a b gl mid gm e.2.2.1, sel5 a b gl mid gm e.2.2.2) := by
  refine ⟨by decide, ?_⟩
  intro e he
  simp only [Gen.C11.bisectionTab, List.mem_cons, List.not_mem_nil, or_false] at he
  rcases he with rfl | rfl <;> rfl

set_option linter.unusedTactic false in
set_option linter.unreachableTactic false in
/-- `_bracket_converged` is the comparison `(b − a)·|h| ≤ xtol` of the model (traced for both signs of `h`) -/
theorem bracketConverged_matches_source (a b h xtol : ℝ) :
    let ρ : Nat → ℝ := fun i => match i with | 0 => a | 1 => b | 2 => h | _ => xtol
    Gen.C11.convPosOp = "le" ∧ Gen.C11.convNegOp = "le" ∧
    (0 ≤ h → (bracketConverged a b h xtol = true ↔ RE.eval ρ Gen.C11.convPosLhs ≤ RE.eval ρ Gen.C11.convPosRhs)) ∧
    (h < 0 → (bracketConverged a b h xtol = true ↔ RE.eval ρ Gen.C11.convNegLhs ≤ RE.eval ρ Gen.C11.convNegRhs)) := by
  intro ρ
  refine ⟨by decide, by decide, ?_, ?_⟩
  · intro h0
    have e1 : RE.eval ρ Gen.C11.convPosLhs = (b - a) * |h| := by
      rw [abs_of_nonneg h0]; simp only [Gen.C11.convPosLhs, RE.eval, ρ] <;> ring
    have e2 : RE.eval ρ Gen.C11.convPosRhs = xtol := by simp only [Gen.C11.convPosRhs, RE.eval, ρ]
    rw [bracketConverged_iff, e1, e2]
  · intro h0
    have e1 : RE.eval ρ Gen.C11.convNegLhs = (b - a) * |h| := by
      rw [abs_of_neg h0]; simp only [Gen.C11.convNegLhs, RE.eval, ρ] <;> ring
    have e2 : RE.eval ρ Gen.C11.convNegRhs = xtol := by simp only [Gen.C11.convNegRhs, RE.eval, ρ]
    rw [bracketConverged_iff, e1, e2]

/-- the live option classes only let positive tolerances and directions −1, 0, +1 reach the drivers -/
theorem options_admissible :
    Gen.C11.optionsRejectNonPositive = true ∧ 0 < Gen.C11.defaultXtol.1 ∧ 0 < Gen.C11.defaultGtol.1 ∧
    Gen.C11.acceptedDirections = [-1, 0, 1] ∧ Gen.C11.defaultDirection = 0 := by decide

/-! ### what the predicates mean -/

/-- a step counts as an event step iff its end value is an exact zero, or the values at its ends change sign strictly
in a direction that is not filtered out -/
theorem eventCrossed_meaning (gp gn : α) (dir : Int) :
    eventCrossed gp gn dir = true ↔
      gn = 0 ∨ (0 ≤ dir ∧ gp < 0 ∧ 0 < gn) ∨ (dir ≤ 0 ∧ 0 < gp ∧ gn < 0) :=
  eventCrossed_iff gp gn dir

/-- an exact zero at the end of a step counts as a hit, whatever the previous value and the direction -/
theorem endpoint_zero_counts (gp : α) (dir : Int) : eventCrossed gp 0 dir = true :=
  (eventCrossed_iff gp 0 dir).mpr (Or.inl rfl)

/-- sign changes in the filtered-out direction are ignored -/
theorem filtered_direction_ignored (gp gn : α) (dir : Int) :
    (0 < dir → 0 < gp → gn < 0 → eventCrossed gp gn dir = false) ∧
    (dir < 0 → gp < 0 → 0 < gn → eventCrossed gp gn dir = false) := by
  constructor
  · intro hd hp hn
    rw [Bool.eq_false_iff, Ne, eventCrossed_iff]
    rintro (h | ⟨_, h, _⟩ | ⟨h, _, _⟩)
    · exact hn.ne h
    · exact lt_asymm hp h
    · omega
  · intro hd hp hn
    rw [Bool.eq_false_iff, Ne, eventCrossed_iff]
    rintro (h | ⟨h, _, _⟩ | ⟨_, h, _⟩)
    · exact hn.ne' h
    · omega
    · exact lt_asymm hp h

/-- without a sign change and without an end-point zero nothing is reported (start on the surface included) -/
theorem no_change_no_event (gp gn : α) (dir : Int) (h : (0 ≤ gp ∧ 0 < gn) ∨ (gp ≤ 0 ∧ gn < 0)) :
    eventCrossed gp gn dir = false := by
  rw [Bool.eq_false_iff, Ne, eventCrossed_iff]
  rcases h with ⟨h1, h2⟩ | ⟨h1, h2⟩
  · rintro (h | ⟨_, h, _⟩ | ⟨_, _, h⟩)
    · exact h2.ne' h
    · exact absurd h (not_lt.mpr h1)
    · exact lt_asymm h2 h
  · rintro (h | ⟨_, _, h⟩ | ⟨_, h, _⟩)
    · exact h2.ne h
    · exact lt_asymm h2 h
    · exact absurd h (not_lt.mpr h1)

end Source

/-! ### first admissible step -/
section Scan
variable {α : Type} [Field α] [LinearOrder α] [IsStrictOrderedRing α] {σ : Type}
variable (g : α → σ → α) (dir : Int) (xtol gtol : α)

/-- **first_admissible_step.**  For every sequence of accepted steps, every event function and direction: the scan
reports a hit in step `i` iff step `i` is the first whose end-point values satisfy `_event_crossed` (no earlier step
does), the hit is the refinement of exactly that step; it reports no hit iff no step satisfies it, and then returns
the time and state after the last step. -/
theorem first_admissible_step (steps : List (Step α σ)) (gprev tl : α) (yl : σ) :
    (∀ i r yn, scan g dir xtol gtol 0 steps gprev tl yl = .hit i r yn ↔
        ∃ pre s post, steps = pre ++ s :: post ∧ i = pre.length ∧ NoCross g dir gprev pre ∧
          eventCrossed (lastG g gprev pre) (gEnd g s) dir = true ∧
          r = refine s.P g s.t0 s.h s.y0 dir xtol gtol ∧ yn = s.y1) ∧
    (∀ t y, scan g dir xtol gtol 0 steps gprev tl yl = .noHit t y ↔
        NoCross g dir gprev steps ∧ (t, y) = lastTY (tl, yl) steps) ∧
    scan g dir xtol gtol 0 steps gprev tl yl ≠ .outOfFuel := by
  refine ⟨?_, ?_, ?_⟩
  · intro i r yn
    constructor
    · intro hs
      rcases scan_cases g dir steps gprev with ⟨pre, s, post, e, hn, hx⟩ | hn
      · have := scan_hit_of_prefix g dir xtol gtol pre 0 gprev tl yl s post hn hx
        rw [← e, hs] at this
        injection this with h1 h2 h3
        exact ⟨pre, s, post, e, by omega, hn, hx, h2, h3⟩
      · rw [scan_noHit_of g dir xtol gtol steps 0 gprev tl yl hn] at hs
        cases hs
    · rintro ⟨pre, s, post, e, hi, hn, hx, hr, hy⟩
      rw [e, scan_hit_of_prefix g dir xtol gtol pre 0 gprev tl yl s post hn hx, hi, hr, hy, Nat.zero_add]
  · intro t y
    constructor
    · intro hs
      rcases scan_cases g dir steps gprev with ⟨pre, s, post, e, hn, hx⟩ | hn
      · rw [e, scan_hit_of_prefix g dir xtol gtol pre 0 gprev tl yl s post hn hx] at hs
        cases hs
      · rw [scan_noHit_of g dir xtol gtol steps 0 gprev tl yl hn] at hs
        injection hs with h1 h2
        exact ⟨hn, by rw [← h1, ← h2]⟩
    · rintro ⟨hn, hty⟩
      rw [scan_noHit_of g dir xtol gtol steps 0 gprev tl yl hn, ← hty]
  · rcases scan_cases g dir steps gprev with ⟨pre, s, post, e, hn, hx⟩ | hn
    · rw [e, scan_hit_of_prefix g dir xtol gtol pre 0 gprev tl yl s post hn hx]
      intro h; cases h
    · rw [scan_noHit_of g dir xtol gtol steps 0 gprev tl yl hn]
      intro h; cases h

/-- the fixed-step RK drivers (generic and Hamiltonian) and the symplectic driver are the scan over the grid steps;
without an event they return the last grid time and the state after the last step -/
theorem grid_driver_is_scan (adv : α → α → σ → σ × (α → σ)) (t0 : α) (ts : List α) (y0 : σ) :
    (∀ i r yn, gridScan adv g dir xtol gtol (t0 :: ts) y0 = .hit i r yn ↔
        scan g dir xtol gtol 0 (gridSteps adv (t0 :: ts) y0) (g t0 y0) t0 y0 = .hit i r yn) ∧
    (∀ t y, gridScan adv g dir xtol gtol (t0 :: ts) y0 = .noHit t y ↔
        t = (t0 :: ts).getLastD t0 ∧ ∃ t', scan g dir xtol gtol 0 (gridSteps adv (t0 :: ts) y0) (g t0 y0) t0 y0 = .noHit t' y) := by
  have e : gridScan adv g dir xtol gtol (t0 :: ts) y0 =
      match scan g dir xtol gtol 0 (gridSteps adv (t0 :: ts) y0) (g t0 y0) t0 y0 with
      | .noHit _ y => .noHit ((t0 :: ts).getLastD t0) y
      | o => o := rfl
  rw [e]
  cases hsc : scan g dir xtol gtol 0 (gridSteps adv (t0 :: ts) y0) (g t0 y0) t0 y0 with
  | hit i r yn => simp
  | noHit t' y' =>
    refine ⟨by simp, ?_⟩
    intro t y
    simp only [Outcome.noHit.injEq]
    constructor
    · rintro ⟨h1, h2⟩; exact ⟨h1.symm, t', rfl, h2⟩
    · rintro ⟨h1, t'', _, h2⟩; exact ⟨h1.symm, h2⟩
  | outOfFuel => exact absurd hsc (first_admissible_step g dir xtol gtol _ _ _ _).2.2

/-- the adaptive drivers (RK45, DOP853, generic and Hamiltonian) are the scan over their accepted steps, whatever the
error estimates, step-size factors and rejected attempts were (`fuel` only bounds the model's loop) -/
theorem adaptive_driver_is_scan (oracle : Nat → α → α → σ → Attempt α σ) (t0 tmax maxS minS h0 : α) (y0 : σ)
    (fuel : Nat) (hfuel : adaptiveScan oracle g dir xtol gtol t0 tmax maxS minS h0 y0 fuel ≠ .outOfFuel) :
    adaptiveScan oracle g dir xtol gtol t0 tmax maxS minS h0 y0 fuel =
      scan g dir xtol gtol 0 (acceptedSteps oracle tmax maxS minS fuel 0 t0 y0 h0) (g t0 y0) t0 y0 := by
  unfold adaptiveScan at hfuel ⊢
  rcases adaptiveLoop_eq_scan g dir xtol gtol oracle tmax maxS minS fuel 0 0 t0 y0 h0 (g t0 y0) with h | h
  · exact absurd h hfuel
  · exact h

/-- **drivers_agree.**  Fed with the same accepted steps, the grid drivers (fixed-step generic/Hamiltonian,
symplectic) and the adaptive drivers (RK45/DOP853 generic/Hamiltonian) report the same event (same step, same refined
point) and, without event, the same end state. -/
theorem drivers_agree (adv : α → α → σ → σ × (α → σ)) (oracle : Nat → α → α → σ → Attempt α σ)
    (t0 tmax maxS minS h0 : α) (ts : List α) (y0 : σ) (fuel : Nat)
    (hfuel : adaptiveScan oracle g dir xtol gtol t0 tmax maxS minS h0 y0 fuel ≠ .outOfFuel)
    (hsteps : gridSteps adv (t0 :: ts) y0 = acceptedSteps oracle tmax maxS minS fuel 0 t0 y0 h0) :
    (∀ i r yn, gridScan adv g dir xtol gtol (t0 :: ts) y0 = .hit i r yn ↔
        adaptiveScan oracle g dir xtol gtol t0 tmax maxS minS h0 y0 fuel = .hit i r yn) ∧
    (∀ y, (∃ t, gridScan adv g dir xtol gtol (t0 :: ts) y0 = .noHit t y) ↔
        (∃ t, adaptiveScan oracle g dir xtol gtol t0 tmax maxS minS h0 y0 fuel = .noHit t y)) := by
  have hg := grid_driver_is_scan g dir xtol gtol adv t0 ts y0
  rw [adaptive_driver_is_scan g dir xtol gtol oracle t0 tmax maxS minS h0 y0 fuel hfuel, ← hsteps]
  refine ⟨hg.1, ?_⟩
  intro y
  constructor
  · rintro ⟨t, ht⟩
    exact ((hg.2 t y).mp ht).2
  · rintro ⟨t, ht⟩
    exact ⟨_, (hg.2 _ y).mpr ⟨rfl, t, ht⟩⟩

end Scan

/-! ### in-step refinement -/
section Refine
variable {α : Type} [Field α] [LinearOrder α] [IsStrictOrderedRing α] {σ : Type}
variable (P : α → σ) (g : α → σ → α) (t0 h : α) (dir : Int) (xtol gtol : α)

/-- **refine_invariant.**  Whenever the scan calls the refinement (the end-point values of the step satisfy
`_event_crossed`, the dense output reproduces the step end `P 1 = y1`), for every event function, curve, step and
tolerances (`0 ≤ gtol`; the option class enforces `0 < gtol`): the result is on the curve at the reported time, the
final bracket `[a,b] ⊆ [0,1]` has width `2^-depth`, the value carried for `a` is the event value at `a`, the bracket
keeps a sign change consistent with the direction (or `g` vanishes at `b`), and the three ways out are
`|g| ≤ gtol` at the returned midpoint / `(b−a)|h| ≤ xtol` with the right end returned / all 128 iterations used. -/
theorem refine_invariant (hg : 0 ≤ gtol) (y0 y1 : σ) (hP1 : P 1 = y1)
    (hcross : eventCrossed (g t0 y0) (g (t0 + h) y1) dir = true) :
    RefineSpec P g t0 h dir xtol gtol (g t0 y0) 0 128 0 1 (refine P g t0 h y0 dir xtol gtol) := by
  unfold refine maxIter
  apply refineLoop_spec P g t0 h dir xtol gtol hg (g t0 y0) 128 0 0 1 (g t0 y0)
  refine ⟨le_refl 0, le_refl 1, by simp, Or.inr ⟨rfl, rfl⟩, ?_⟩
  have hG : G P g t0 h 1 = g (t0 + h) y1 := by simp [G, hP1]
  unfold SignOK
  rw [hG]
  rcases (eventCrossed_iff _ _ _).mp hcross with h0 | h1 | h1
  · exact Or.inr h0
  · exact Or.inl ((crossedDirection_iff _ _ _).mpr (Or.inl h1))
  · exact Or.inl ((crossedDirection_iff _ _ _).mpr (Or.inr h1))

/-- the reported state is the dense-output state at the reported time, which lies in the step, strictly after its
start: `y_hit = P θ`, `t_hit = t0 + θ h`, `0 < θ ≤ 1` -/
theorem refine_on_trajectory (hg : 0 ≤ gtol) (y0 y1 : σ) (hP1 : P 1 = y1)
    (hcross : eventCrossed (g t0 y0) (g (t0 + h) y1) dir = true) :
    let r := refine P g t0 h y0 dir xtol gtol
    r.y = P r.x ∧ r.t = t0 + r.x * h ∧ 0 < r.x ∧ r.x ≤ 1 ∧ r.a ≤ r.x ∧ r.x ≤ r.b := by
  intro r
  have s := refine_invariant P g t0 h dir xtol gtol hg y0 y1 hP1 hcross
  have hlt := s.inv.lt
  have ha := s.inv.a_nonneg
  have hb := s.inv.b_le_one
  refine ⟨s.on_curve, s.time, ?_⟩
  cases he : r.exit with
  | gtol =>
    obtain ⟨_, hx, _⟩ := s.exit_gtol he
    have hx' : r.x = (r.a + r.b) / 2 := hx
    refine ⟨?_, ?_, ?_, ?_⟩ <;> rw [hx'] <;> linarith
  | xtol =>
    obtain ⟨_, hx, _⟩ := s.exit_xtol he
    have hx' : r.x = r.b := hx
    refine ⟨?_, ?_, ?_, ?_⟩ <;> rw [hx'] <;> linarith
  | maxIter =>
    obtain ⟨hx, _, _⟩ := s.exit_max he
    have hx' : r.x = r.b := hx
    refine ⟨?_, ?_, ?_, ?_⟩ <;> rw [hx'] <;> linarith

/-- on exit the location tolerances hold: either the event function at the reported point is within `gtol`, or the
bracket (in time) is within `xtol` and still contains an admissible sign change, or — only if `xtol < 2^-128 |h|` —
the best bracket after 128 halvings is reported -/
theorem refine_exit (hg : 0 ≤ gtol) (y0 y1 : σ) (hP1 : P 1 = y1)
    (hcross : eventCrossed (g t0 y0) (g (t0 + h) y1) dir = true) :
    let r := refine P g t0 h y0 dir xtol gtol
    (r.exit = .gtol → |g r.t r.y| ≤ gtol) ∧
    (r.exit = .xtol → (r.b - r.a) * |h| ≤ xtol ∧ r.x = r.b ∧ SignOK dir r.gl (G P g t0 h r.b)) ∧
    (r.exit = .maxIter → r.b - r.a = (1 / 2) ^ 128 ∧ r.x = r.b ∧ SignOK dir r.gl (G P g t0 h r.b) ∧ xtol < (1 / 2) ^ 128 * |h|) ∧
    ((1 / 2) ^ 128 * |h| ≤ xtol → r.exit ≠ .maxIter) := by
  intro r
  have s := refine_invariant P g t0 h dir xtol gtol hg y0 y1 hP1 hcross
  have hmax : r.exit = .maxIter → r.b - r.a = (1 / 2) ^ 128 ∧ r.x = r.b ∧ SignOK dir r.gl (G P g t0 h r.b) ∧ xtol < (1 / 2) ^ 128 * |h| := by
    intro he
    obtain ⟨hx, hi, hc⟩ := s.exit_max he
    have hw := s.inv.width
    have hd : r.depth = 128 := by
      have : r.iters = 128 := by simpa using hi
      simp [Refined.depth, he, this]
    rw [hd] at hw
    refine ⟨hw, hx, s.inv.sign, ?_⟩
    have := hc (Or.inl (by norm_num))
    rw [hw] at this
    exact not_le.mp this
  refine ⟨?_, ?_, hmax, ?_⟩
  · intro he
    have := (s.exit_gtol he).1
    have e : G P g t0 h r.x = g r.t r.y := by
      show g (t0 + r.x * h) (P r.x) = g r.t r.y
      rw [s.on_curve, s.time]
    rwa [e] at this
  · intro he
    obtain ⟨h1, h2, _⟩ := s.exit_xtol he
    exact ⟨h1, h2, s.inv.sign⟩
  · intro hx he
    exact absurd hx (not_le.mpr (hmax he).2.2.2)

end Refine

/-! ### the reported time is within the tolerance of a genuine zero (real numbers, continuity) -/

/-- If the event function is continuous along the dense-output curve of the step (`G θ = g (t0 + θ h) (P θ)`), the
curve starts at the step start (`P 0 = y0`) and the bisection stopped by the bracket test, then there is a genuine
zero `θ*` of `G` inside the final bracket, the reported time is within `xtol` of its time, and the sign change at it
is consistent with the requested direction (or it is the exact zero at the bracket end). -/
theorem refine_locates_zero {σ : Type} (P : ℝ → σ) (g : ℝ → σ → ℝ) (t0 h : ℝ) (dir : Int) (xtol gtol : ℝ)
    (hg : 0 ≤ gtol) (y0 y1 : σ) (hP0 : P 0 = y0) (hP1 : P 1 = y1)
    (hcont : ContinuousOn (G P g t0 h) (Set.Icc 0 1))
    (hcross : eventCrossed (g t0 y0) (g (t0 + h) y1) dir = true) :
    let r := refine P g t0 h y0 dir xtol gtol
    r.exit ≠ .gtol →
      ∃ θ, r.a ≤ θ ∧ θ ≤ r.b ∧ G P g t0 h θ = 0 ∧ |r.t - (t0 + θ * h)| ≤ (r.b - r.a) * |h| ∧
        (r.exit = .xtol → |r.t - (t0 + θ * h)| ≤ xtol) := by
  intro r hne
  have s := refine_invariant P g t0 h dir xtol gtol hg y0 y1 hP1 hcross
  have hlt := s.inv.lt
  have ha := s.inv.a_nonneg
  have hb := s.inv.b_le_one
  have hx : r.x = r.b := by
    cases he : r.exit with
    | gtol => exact absurd he hne
    | xtol => exact (s.exit_xtol he).2.1
    | maxIter => exact (s.exit_max he).1
  have hgl : r.gl = G P g t0 h r.a := by
    rcases s.inv.left with h1 | ⟨h1, h2⟩
    · exact h1
    · rw [h2, h1]; simp [G, hP0]
  have hsub : Set.Icc r.a r.b ⊆ Set.Icc 0 1 := Set.Icc_subset_Icc ha hb
  have hc' : ContinuousOn (G P g t0 h) (Set.Icc r.a r.b) := hcont.mono hsub
  have key : ∃ θ, r.a ≤ θ ∧ θ ≤ r.b ∧ G P g t0 h θ = 0 := by
    rcases s.inv.sign with hs | hs
    · rw [hgl, crossedDirection_iff] at hs
      rcases hs with ⟨_, h1, h2⟩ | ⟨_, h1, h2⟩
      · obtain ⟨θ, hθ, h0⟩ := intermediate_value_Icc hlt.le hc' ⟨h1.le, h2.le⟩
        exact ⟨θ, hθ.1, hθ.2, h0⟩
      · obtain ⟨θ, hθ, h0⟩ := intermediate_value_Icc' hlt.le hc' ⟨h2.le, h1.le⟩
        exact ⟨θ, hθ.1, hθ.2, h0⟩
    · exact ⟨r.b, hlt.le, le_refl _, hs⟩
  obtain ⟨θ, h1, h2, h0⟩ := key
  have hd : |r.t - (t0 + θ * h)| ≤ (r.b - r.a) * |h| := by
    have : r.t - (t0 + θ * h) = (r.b - θ) * h := by
      have := s.time
      rw [this, hx]; ring
    rw [this, abs_mul, abs_of_nonneg (by linarith : 0 ≤ r.b - θ)]
    exact mul_le_mul_of_nonneg_right (by linarith) (abs_nonneg h)
  refine ⟨θ, h1, h2, h0, hd, ?_⟩
  intro he
  exact le_trans hd (s.exit_xtol he).1

/-! ### non-vacuity: concrete runs of the model (exact rationals) -/

/-- a two-step grid, event `g = u − 5/8` in the world `u' = 1`: no event in step 0, event in step 1 -/
example :
    (match gridScan (fun _ h (y : ℚ) => (y + h, fun θ => y + θ * h)) (fun _ y => y - 5 / 8) 1 (1 / 1024) 0 [0, 1 / 2, 1] 0 with
      | .hit i r _ => (i, r.x, r.t, r.y, r.iters) | _ => (99, 0, 0, 0, 0)) = (1, 1 / 4, 5 / 8, 5 / 8, 2) := by
  decide +kernel

/-- the hypotheses of `refine_invariant` are satisfiable: a crossing step with an interpolating curve -/
example : eventCrossed ((fun (_ : ℚ) (y : ℚ) => y - 5 / 8) 0 0) ((fun (_ : ℚ) (y : ℚ) => y - 5 / 8) (0 + 1) 1) 1 = true ∧
    (fun θ : ℚ => 0 + θ * 1) 1 = 1 := by
  constructor
  · decide +kernel
  · norm_num

/-- a filtered-out crossing is skipped and the end-of-span state is returned -/
example :
    (match gridScan (fun _ h (y : ℚ) => (y + h, fun θ => y + θ * h)) (fun _ y => y - 5 / 8) (-1) (1 / 1024) 0 [0, 1 / 2, 1] 0 with
      | .noHit t y => (t, y) | _ => (99, 99)) = (1, 1) := by
  decide +kernel

end HitenModel.Props.C11
