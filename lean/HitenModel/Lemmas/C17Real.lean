/-
  Lemmas/C17Real.lean — over ℝ the model derivative `Poly.diff` is the analytic partial derivative of the polynomial
  function (`HasDerivAt` along one coordinate), so the formal Hamilton field of `Props/C17.lean` is the classical one.
-/
import HitenModel.Lemmas.C17
import Mathlib.Analysis.Calculus.Deriv.Pow
import Mathlib.Analysis.Calculus.Deriv.Mul
import Mathlib.Analysis.Calculus.Deriv.Add

namespace HitenModel.C17
open Function

theorem monoVal_update_of_lt (z : ℕ → ℝ) {i j : ℕ} (h : i < j) (s : ℝ) (ks : List ℕ) :
    monoVal (update z i s) j ks = monoVal z j ks := by
  induction ks generalizing j with
  | nil => simp [monoVal]
  | cons k ks ih =>
    have hne : j ≠ i := by omega
    simp [monoVal, update_of_ne hne, ih (by omega : i < j + 1)]

/-- value of the derivative of a monomial (from `decAt`) -/
def decVal (z : ℕ → ℝ) (j : ℕ) : Option (ℕ × List ℕ) → ℝ
  | none => 0
  | some r => (r.1 : ℝ) * monoVal z j r.2

theorem monoVal_hasDerivAt (z : ℕ → ℝ) (j n : ℕ) (ks : List ℕ) :
    HasDerivAt (fun s => monoVal (update z (j + n) s) j ks) (decVal z j (decAt n ks)) (z (j + n)) := by
  induction ks generalizing j n with
  | nil => simpa [monoVal, decAt, decVal] using hasDerivAt_const (z (j + n)) (1 : ℝ)
  | cons k ks ih =>
    cases n with
    | zero =>
      simp only [Nat.add_zero]
      have hf : (fun s => monoVal (update z j s) j (k :: ks)) = fun s => s ^ k * monoVal z (j + 1) ks := by
        funext s
        simp [monoVal, pw_eq_pow, monoVal_update_of_lt z (by omega : j < j + 1)]
      rw [hf]
      refine ((hasDerivAt_pow k (z j)).mul_const (monoVal z (j + 1) ks)).congr_deriv ?_
      by_cases hk : k = 0
      · subst hk; simp [decAt, decVal]
      · simp [decAt, hk, decVal, monoVal, pw_eq_pow]; ring
    | succ n =>
      have e : j + (n + 1) = (j + 1) + n := by omega
      rw [e]
      have hne : j ≠ j + 1 + n := by omega
      have hf : (fun s => monoVal (update z (j + 1 + n) s) j (k :: ks))
          = fun s => z j ^ k * monoVal (update z ((j + 1) + n) s) (j + 1) ks := by
        funext s
        simp only [monoVal, pw_eq_pow, update_of_ne hne]
      rw [hf]
      refine ((ih (j + 1) n).const_mul (z j ^ k)).congr_deriv ?_
      cases h : decAt n ks with
      | none => simp [decAt, h, decVal]
      | some r => simp [decAt, h, decVal, monoVal, pw_eq_pow]; ring

/-- `Poly.diff` is the analytic partial derivative of the polynomial function -/
theorem eval_hasDerivAt (p : Poly ℝ) (z : ℕ → ℝ) (i : ℕ) :
    HasDerivAt (fun s => Poly.eval (update z i s) p) (Poly.eval z (Poly.diff i p)) (z i) := by
  induction p with
  | nil => simpa [Poly.eval, Poly.diff] using hasDerivAt_const (z i) (0 : ℝ)
  | cons m p ih =>
    have hm : HasDerivAt (fun s => monoVal (update z i s) 0 m.e) (decVal z 0 (decAt i m.e)) (z i) := by
      simpa using monoVal_hasDerivAt z 0 i m.e
    have hf : (fun s => Poly.eval (update z i s) (m :: p))
        = fun s => m.c * monoVal (update z i s) 0 m.e + Poly.eval (update z i s) p := by
      funext s; simp [Poly.eval, Mono.eval]
    rw [hf]
    refine ((hm.const_mul m.c).add ih).congr_deriv ?_
    simp only [Poly.diff, List.filterMap_cons, Mono.diff]
    cases h : decAt i m.e with
    | none => simp [decVal]
    | some r => simp [decVal, Poly.eval, Mono.eval]; ring
end HitenModel.C17
