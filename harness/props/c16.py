"""C16 — the symplectic integrator is symplectic, reversible and converges at its declared order.

T-trace of the three sub-flows (`_phi_H_a_update_poly`, `_phi_H_b_update_poly` with uninterpreted gradient symbols,
`_phi_omega_H_c_update_poly` with cos/sin as atoms), of the composition word of `_recursive_update_poly` (callees rebound
to recorders; the triple-jump fractions are the float64 values the code computes, exported as exact dyadics) and of
`_get_tao_omega` -> Gen/C16.lean.  Props/C16.lean proves the abstract sub-flows symplectic and exactly invertible, the
traced wiring/rotation/word to be those abstract objects, the palindromic structure and the Yoshida conditions.
Numerics (failing-input search): symplecticity residual, round trip, convergence order at fixed omega, energy drift."""
from __future__ import annotations

import math
from fractions import Fraction

import numpy as np

import lean_emit as E
import tracer as T

BLK = {"Q": 0, "P": 1, "X": 2, "Y": 3}


def dy(q):
    q = Fraction(q)
    d = q.denominator
    e = d.bit_length() - 1
    assert d == 1 << e, "non-dyadic %r" % (q,)
    return "⟨%d,%d⟩" % (q.numerator, e)


def no_branches(what):
    """The model of a sub-flow is one formula for every state, step and coupling constant: a data-dependent branch taken while tracing
    means the traced formula only describes one region of the inputs."""
    if T.CTX.path:
        op, a, b, out = T.CTX.path[0]
        raise ValueError("%s branches on its data (%s %s %s was %s at the traced point): the traced formula is not valid for every input"
                         % (what, T.show(a, 60), op, T.show(b, 60), out))


def trace_shear(fn):
    """returns (calls, updates): calls = [(kind, blockA, blockB)], updates = [(block, sign, call)]"""
    T.reset()
    names = [n + str(i) for n in "QPXY" for i in range(3)]
    q = T.symarray([T.Sym.var(n, 0.1 * i + 0.2) for i, n in enumerate(names)])
    d = T.Sym.var("d", 0.01)
    calls = []

    # The gradient is left uninterpreted at the deepest stable primitive: `_polynomial_evaluate(jac_H[j], point6, clmo)` with
    # `jac_H[j]` = dH/dx_j (x = q1 q2 q3 p1 p2 p3).  Whatever helpers the code uses to assemble the evaluation point and to
    # collect the components (`_eval_dH_dQ`, `_eval_dH_dP`, `_construct_6d_eval_point`, or refactored variants) are traced through.
    class _JacMark:
        def __init__(self, j):
            self.j = j

    idx = {}

    def blk(v):
        ns = [x.args[0] if x.op == "var" else None for x in v]
        if None in ns or [n[1] for n in ns] != ["0", "1", "2"] or len({n[0] for n in ns}) != 1:
            raise ValueError("gradient argument is not one of the blocks Q,P,X,Y: %r" % (ns,))
        return BLK[ns[0][0]]

    def pe(poly, point, clmo, *a, **k):
        if not isinstance(poly, _JacMark):
            raise ValueError("_polynomial_evaluate called on something that is not an entry of jac_H")
        pt = [T.Sym.lift(x) for x in point]
        if len(pt) != 6:
            raise ValueError("evaluation point has %d components" % len(pt))
        key = (0 if poly.j < 3 else 1, blk(pt[:3]), blk(pt[3:]))
        if key not in idx:
            calls.append(key)
            idx[key] = len(calls) - 1
        j = idx[key]
        return T.Sym.var("g%d_%d" % (j, poly.j % 3), 0.3 + poly.j % 3 + j)

    f = T.retarget(fn, {"_polynomial_evaluate": pe})
    f(q, d, [_JacMark(j) for j in range(6)], None)
    no_branches(getattr(fn, "__name__", "shear sub-flow"))
    updates = []
    for b, bn in enumerate("QPXY"):
        rows = []
        for i in range(3):
            nf = T.polynf(T.Sym.lift(q[3 * b + i]))
            row = []
            for mono, c in sorted(nf.items()):
                md = dict(mono)
                if md == {"%s%d" % (bn, i): 1}:
                    if c != 1:
                        raise ValueError("block coefficient %r" % c)
                    continue
                g = [v for v in md if v.startswith("g")]
                if len(g) != 1 or md != {g[0]: 1, "d": 1} or abs(c) != 1:
                    raise ValueError("unexpected update term %r" % (mono,))
                j, comp = g[0][1:].split("_")
                if int(comp) != i:
                    raise ValueError("component mix-up in update")
                row.append((int(c), int(j)))
            rows.append(row)
        if any(r != rows[0] for r in rows):
            raise ValueError("components of a block are updated differently")
        for sgn, j in rows[0]:
            updates.append((b, sgn, j))
    return calls, updates


def trace_rotation():
    """per-dof 4x4 matrix with entries k0 + kc*c + ks*s; also the traced angle polynomial"""
    from hiten.algorithms.integrators import symplectic as sy
    T.reset()
    names = [n + str(i) for n in "QPXY" for i in range(3)]
    q = T.symarray([T.Sym.var(n, 0.1 * i + 0.2) for i, n in enumerate(names)])
    d = T.Sym.var("d", 0.01)
    om = T.Sym.var("om", 3.0)
    angles = []
    shim = T.ShimNP()
    c, s = T.Sym.var("c", math.cos(0.06)), T.Sym.var("s", math.sin(0.06))

    class Shim2:
        def __getattr__(self, n):
            return getattr(shim, n)

        def cos(self, x):
            angles.append(("cos", T.polynf(T.Sym.lift(x))))
            return c

        def sin(self, x):
            angles.append(("sin", T.polynf(T.Sym.lift(x))))
            return s

    f = T.retarget(sy._phi_omega_H_c_update_poly, shim=Shim2())
    f(q, d, om)
    no_branches("_phi_omega_H_c_update_poly")
    mats = []
    for i in range(3):
        M = []
        for b in range(4):
            nf = T.polynf(T.Sym.lift(q[3 * b + i]))
            row = [[Fraction(0)] * 3 for _ in range(4)]
            for mono, co in nf.items():
                md = dict(mono)
                src = [v for v in md if v[0] in "QPXY" and v[1:].isdigit()]
                if len(src) != 1 or md[src[0]] != 1 or int(src[0][1:]) != i:
                    raise ValueError("rotation mixes degrees of freedom: %r" % (mono,))
                rest = {v: e for v, e in md.items() if v != src[0]}
                k = {(): 0, (("c", 1),): 1, (("s", 1),): 2}.get(tuple(sorted(rest.items())))
                if k is None:
                    raise ValueError("rotation entry not affine in cos/sin: %r" % (mono,))
                row[BLK[src[0][0]]][k] += co
            M.append(row)
        mats.append(M)
    if any(m != mats[0] for m in mats):
        raise ValueError("rotation differs between degrees of freedom")
    ang = {a: p for a, p in angles}
    for nm in ("cos", "sin"):
        if ang.get(nm) != {(("d", 1), ("om", 1)): Fraction(2)}:
            raise ValueError("rotation angle is %r, expected 2*omega*delta" % (ang.get(nm),))
    return mats[0]


def trace_words():
    """flat call words for orders 2..8 and the one-level jumps"""
    from hiten.algorithms.integrators import symplectic as sy
    out = {}
    for order in (2, 4, 6, 8):
        T.reset()
        h = T.Sym.var("h", 0.1)
        om = T.Sym.var("om", 3.0)
        word = []

        def lin(x):
            nf = T.polynf(T.Sym.lift(x))
            if nf is None or set(nf) - {(("h", 1),)}:
                raise ValueError("sub-step is not a multiple of the time step")
            return nf.get((("h", 1),), Fraction(0))

        def omchk(o):
            if T.polynf(T.Sym.lift(o)) != {(("om", 1),): Fraction(1)}:
                raise ValueError("omega is modified inside the recursion")

        rec_g = {"_phi_H_a_update_poly": lambda q, dd, j, c: word.append((0, lin(dd))),
                 "_phi_H_b_update_poly": lambda q, dd, j, c: word.append((1, lin(dd))),
                 "_phi_omega_H_c_update_poly": lambda q, dd, o: (omchk(o), word.append((2, lin(dd))))}
        rec = T.retarget(sy._recursive_update_poly, rec_g)
        rec.__globals__["_recursive_update_poly"] = rec
        rec(None, h, order, om, None, None)
        out["word%d" % order] = list(word)
        if order > 2:
            jumps = []
            rec1 = T.retarget(sy._recursive_update_poly, dict(rec_g))
            rec1.__globals__["_recursive_update_poly"] = lambda q, ts, lo, o, j, c: (omchk(o), jumps.append((lin(ts), int(lo))))
            rec1(None, h, order, om, None, None)
            out["jump%d" % order] = jumps
    return out


def trace_driver(event):
    """Wiring of the stepping loops `_integrate_symplectic` / `_integrate_symplectic_until_event` over a non-uniform 4-node grid with
    the step function and the omega heuristic rebound to recorders.  Slots are numbered: initial state Q,P -> 0..5; output slot j of step k
    (1-based) -> 12*k + j.  Returns (inputs per step, (dt index used for omega, dt index used for the step), trajectory rows)."""
    from hiten.algorithms.integrators import symplectic as sy
    T.reset()
    z = T.symarray([T.Sym.var("z%d" % i, 0.1 + 0.05 * i) for i in range(6)])
    hs = [T.Sym.var("h%d" % i, 0.1 * (i + 1)) for i in range(3)]
    t0 = T.Sym.var("t0", 0.0)
    tv = T.symarray([t0, t0 + hs[0], t0 + hs[0] + hs[1], t0 + hs[0] + hs[1] + hs[2]])
    calls = []
    oms = []

    def slot(v):
        v = T.Sym.lift(v)
        if v.op == "var" and v.args[0][0] == "z":
            return int(v.args[0][1:])
        if v.op == "var" and v.args[0][0] == "s":
            k, j = v.args[0][1:].split("_")
            return 12 * int(k) + int(j)
        return 9999

    def dtidx(x):
        nf = T.polynf(T.Sym.lift(x))
        for i in range(3):
            if nf == {(("h%d" % i, 1),): 1}:
                return i
        return 99

    def tao(dt, order, c):
        oms.append(dtidx(dt))
        return T.Sym.var("om%d" % (len(oms) - 1), 3.0 + len(oms))

    def rec(q, dt, order, om, jac, clmo):
        k = len(calls) + 1
        omi = int(T.Sym.lift(om).args[0][2:]) if T.Sym.lift(om).op == "var" and str(T.Sym.lift(om).args[0]).startswith("om") else 99
        calls.append(([slot(v) for v in q], oms[omi] if omi < len(oms) else 99, dtidx(dt), int(order)))
        for j in range(12):
            q[j] = T.Sym.var("s%d_%d" % (k, j), 0.01 * k + 0.001 * j)

    extra = {"_get_tao_omega": tao, "_recursive_update_poly": rec, "len": lambda a: len(a)}
    shim = T.ShimNP()

    class Shim3:
        def __getattr__(self, n):
            return getattr(shim, n)

        def diff(self, a):
            return T.symarray([a[i + 1] - a[i] for i in range(len(a) - 1)])

    if not event:
        f = T.retarget(sy._integrate_symplectic, extra, shim=Shim3())
        traj = f(z, tv, None, None, 4, 20.0)
    else:
        extra.update({"_eval_hamiltonian_derivative": lambda Q, P, j, c: T.symarray([T.Sym.const(0)] * 6),
                      "_event_crossed": lambda a, b, d: False})
        f = T.retarget(sy._integrate_symplectic_until_event, extra, shim=Shim3())
        hit, th, yh, traj = f(z, tv, None, None, 4, (lambda t, y: 1.0), 0, 1e-12, 1e-12, 20.0)
    rows = [[slot(traj[r, c]) for c in range(6)] for r in range(traj.shape[0])]
    return [c[0] for c in calls], [(c[1], c[2], c[3]) for c in calls], rows


def gen(ctx):
    from hiten.algorithms.integrators import symplectic as sy
    txt = E.header("C16", imports=("HitenModel.Core.Dy", "HitenModel.Core.RE"), note="traced from integrators/symplectic.py")
    try:
        ca, ua = trace_shear(sy._phi_H_a_update_poly)
        cb, ub = trace_shear(sy._phi_H_b_update_poly)
        txt += "-- gradient calls (kind 0 = dH/dQ, 1 = dH/dP; evaluated at (block, block); blocks Q=0 P=1 X=2 Y=3)\n"
        txt += "def phiA_calls : List (Nat × Nat × Nat) := %s\n" % lst(ca)
        txt += "def phiA_updates : List (Nat × Int × Nat) := %s\n" % lst(ua)
        txt += "def phiB_calls : List (Nat × Nat × Nat) := %s\n" % lst(cb)
        txt += "def phiB_updates : List (Nat × Int × Nat) := %s\n" % lst(ub)
    except Exception as ex:
        ctx.broken.append(("trace:shear-wiring", repr(ex)))
        ctx.obligations["trace:shear-wiring"] = False
    try:
        R = trace_rotation()
        txt += "-- rotation: entry = k0 + kc*cos(2 om d) + ks*sin(2 om d), rows/cols Q P X Y\n"
        txt += "def rot : List (List (Int × Int × Int)) := [\n  %s]\n" % ",\n  ".join(
            "[" + ", ".join("(%d, %d, %d)" % tuple(int(2 * k) for k in e) for e in row) + "]" for row in R)
        txt += "def rotDen : Nat := 2   -- entries above are doubled\n"
        assert all((2 * k).denominator == 1 for row in R for e in row for k in e)
    except Exception as ex:
        ctx.broken.append(("trace:rotation", repr(ex)))
        ctx.obligations["trace:rotation"] = False
    try:
        W = trace_words()
        for order in (2, 4, 6, 8):
            txt += "def word%d : List (Nat × Dy) := [%s]\n" % (order, ", ".join("(%d, %s)" % (l, dy(c)) for l, c in W["word%d" % order]))
        for order in (4, 6, 8):
            txt += "def jump%d : List (Dy × Nat) := [%s]\n" % (order, ", ".join("(%s, %d)" % (dy(c), lo) for c, lo in W["jump%d" % order]))
        ctx.extra["gammas"] = {o: float(W["jump%d" % o][0][0]) for o in (4, 6, 8)}
    except Exception as ex:
        ctx.broken.append(("trace:composition-word", repr(ex)))
        ctx.obligations["trace:composition-word"] = False
    for tag, ev in (("plain", False), ("event", True)):
        try:
            ins, dts, rows = trace_driver(ev)
            txt += "def driver_%s_inputs : List (List Nat) := %s\n" % (tag, ins)
            txt += "def driver_%s_dt : List (Nat × Nat × Nat) := [%s]\n" % (tag, ", ".join("(%d, %d, %d)" % d for d in dts))
            txt += "def driver_%s_rows : List (List Nat) := %s\n" % (tag, rows)
        except Exception as ex:
            ctx.broken.append(("trace:driver-" + tag, repr(ex)))
            ctx.obligations["trace:driver-" + tag] = False
    # omega heuristic as RE over (delta=0, c=1) for the supported orders
    txt += "open RE\n"
    for order in (2, 4, 6, 8):
        T.reset()
        dlt, c = T.Sym.var("delta", 0.1), T.Sym.var("c", 10.0)
        try:
            w = T.retarget(sy._get_tao_omega)(dlt, order, c)
            no_branches("_get_tao_omega")
            txt += E.re_def("tao%d" % order, w, {"delta": 0, "c": 1})
        except Exception as ex:
            ctx.broken.append(("trace:tao-omega:%d" % order, repr(ex)))
            ctx.obligations["trace:tao-omega:%d" % order] = False
    txt += E.footer("C16")
    ctx.write_gen("HitenModel.Gen.C16", txt)


def lst(xs):
    return "[" + ", ".join("(" + ", ".join(str(v) for v in x) + ")" for x in xs) + "]"


def run(ctx):
    ctx.guard("regenerate", gen, ctx)
    ok = ctx.lean_build(["HitenModel.Props.C16"])
    if ok:
        ctx.lean_audit(["HitenModel.Props.C16"], ["HitenModel.Props.C16", "HitenModel.Gen.C16"])
        if ctx.thorough():
            ctx.leanchecker(["HitenModel.Props.C16"])
    numerics(ctx)
    ctx.rule = ("polynomial Hamiltonians (separable pendulum-like and non-separable cubic/quartic, 3 dof) x orders {2,4,6,8} x step sizes x "
                "states; distinct by (H, order, check, step); non-trivial = non-separable H or order > 2")


# --------------------------------------------------------------------------------------------------------

HAMS = {
    # separable: pendulum-like in dof 1 + oscillators
    "separable": {(0, 0, 0, 2, 0, 0): 0.5, (2, 0, 0, 0, 0, 0): 0.5, (4, 0, 0, 0, 0, 0): -1 / 24.0, (0, 0, 0, 0, 2, 0): 0.5, (0, 2, 0, 0, 0, 0): 0.7,
                  (0, 0, 0, 0, 0, 2): 0.5, (0, 0, 2, 0, 0, 0): 0.9, (1, 1, 1, 0, 0, 0): 0.1},
    # non-separable: mixed q*p terms of degree 3 and 4
    "nonseparable": {(0, 0, 0, 2, 0, 0): 0.5, (2, 0, 0, 0, 0, 0): 0.5, (0, 0, 0, 0, 2, 0): 0.6, (0, 2, 0, 0, 0, 0): 0.4, (0, 0, 0, 0, 0, 2): 0.5,
                     (0, 0, 2, 0, 0, 0): 0.8, (1, 0, 0, 1, 1, 0): 0.3, (0, 1, 1, 0, 0, 1): -0.2, (1, 1, 0, 1, 1, 0): 0.25, (2, 0, 0, 0, 0, 1): 0.15,
                     (0, 0, 1, 2, 0, 0): -0.1},
}


def numerics(ctx):
    import polyutil as PU
    from hiten.algorithms.integrators import symplectic as sy
    rng = ctx.rng
    for hname, hd in HAMS.items():
        sysm, H = PU.ham_system(hd, 4)
        jac_H, clmo_H, ndof = sysm.rhs_params

        def step(qext, h, order, om):
            q = np.array(qext, dtype=np.float64)
            sy._recursive_update_poly(q, h, order, om, jac_H, clmo_H)
            return q

        orders = (2, 4, 6, 8) if ctx.thorough() else (2, 4, 6)
        for order in orders:
            z = np.array([rng.uniform(-0.3, 0.3) for _ in range(6)])
            qe = np.concatenate([z[:3], z[3:], z[:3] + 0.01 * np.array([rng.uniform(-1, 1) for _ in range(3)]), z[3:] + 0.01])
            # step sizes and coupling constants: the regular regime, a small rotation angle 2*omega*h (weak coupling), a large
            # step with weak coupling, a backward step, a strong coupling
            for (h, om) in ((0.05, 5.0), (0.002, 1.0), (0.3, 0.01), (-0.05, 5.0), (0.01, 200.0)):
                # --- symplecticity of one step in the extended phase space (central differences) ---------------
                n = 12
                J = np.zeros((n, n))
                eps = 1e-6
                for j in range(n):
                    e = np.zeros(n)
                    e[j] = eps
                    J[:, j] = (step(qe + e, h, order, om) - step(qe - e, h, order, om)) / (2 * eps)
                I3, Z3 = np.eye(3), np.zeros((3, 3))
                # ordering (Q,P,X,Y): two-form dQ^dP + dX^dY
                Om = np.block([[Z3, I3, Z3, Z3], [-I3, Z3, Z3, Z3], [Z3, Z3, Z3, I3], [Z3, Z3, -I3, Z3]])
                res = float(np.abs(J.T @ Om @ J - Om).max())
                ctx.case((hname, order, "symplectic", h, om), nontrivial=(hname != "separable" or order > 2), kind="symplecticity",
                         sample={"H": hname, "order": order, "h": h, "omega": om, "residual": res})
                if not res <= 1e-7:
                    ctx.violation("not-symplectic:%d" % order, "one step of order %d is not a symplectic map of the extended phase space (residual %g)" % (order, res),
                                  {"hamiltonian": {str(k): v for k, v in hd.items()}, "order": order, "state_ext": qe.tolist(), "h": h, "omega": om, "residual": res})
                    return
                # --- reversibility ------------------------------------------------------------------------------
                back = step(step(qe, h, order, om), -h, order, om)
                rt = float(np.abs(back - qe).max())
                ctx.case((hname, order, "reverse", h, om), nontrivial=True, kind="round-trip")
                if not rt <= 1e-12:
                    ctx.violation("not-reversible:%d" % order, "step(-h) after step(h) does not restore the state (error %g)" % rt,
                                  {"hamiltonian": {str(k): v for k, v in hd.items()}, "order": order, "state_ext": qe.tolist(), "h": h, "omega": om, "error": rt})
                    return
            h, om = 0.05, 5.0
            # --- convergence order at fixed omega ---------------------------------------------------------------
            if order <= 6:
                Tend = 0.4
                z0 = np.concatenate([z[:3], z[3:], z[:3], z[3:]])

                def run_n(N):
                    q = z0.copy()
                    for _ in range(N):
                        sy._recursive_update_poly(q, Tend / N, order, om, jac_H, clmo_H)
                    return q

                ref = run_n({2: 2048, 4: 256, 6: 128}[order] * 2)
                Ns = {2: [16, 32, 64], 4: [4, 8, 16], 6: [4, 8, 16]}[order]
                errs = [float(np.abs(run_n(N) - ref).max()) for N in Ns]
                rates = [math.log2(errs[i] / errs[i + 1]) for i in range(len(errs) - 1) if errs[i + 1] > 1e-14 and errs[i] > 1e-14]
                ctx.extra.setdefault("rates", {})["%s:%d" % (hname, order)] = [round(r, 2) for r in rates]
                ctx.extra.setdefault("errors", {})["%s:%d" % (hname, order)] = errs
                ctx.case((hname, order, "order-fit"), nontrivial=True, kind="order-fit", sample={"H": hname, "order": order, "rates": rates})
                if rates and max(rates) < 2 - 0.3:
                    ctx.violation("order-below-2:%d" % order, "order-%d scheme converges at rate %.2f (< 2) at fixed omega" % (order, max(rates)),
                                  {"hamiltonian": {str(k): v for k, v in hd.items()}, "order": order, "N": Ns, "errors": errs, "rates": rates, "omega": om})
                    return
                if rates and max(rates) < order - 0.7:
                    ctx.violation("order:%d" % order, "order-%d scheme converges at rate %.2f at fixed omega" % (order, max(rates)),
                                  {"hamiltonian": {str(k): v for k, v in hd.items()}, "order": order, "N": Ns, "errors": errs, "rates": rates, "omega": om, "T": Tend})
                    if any(v["key"] == "order:%d" % order for v in ctx.violations):
                        return
        # --- the stepping loops: retracing a non-uniform grid restores the state; the event-enabled loop takes the same steps ---
        zz = np.array([0.2, 0.1, -0.15, 0.05, -0.1, 0.12])
        tv = np.array([0.0, 0.1, 0.15, 0.32, 0.15, 0.1, 0.0])
        traj = sy._integrate_symplectic(zz, tv, jac_H, clmo_H, 4, 20.0)
        rt = float(np.abs(traj[-1] - zz).max())
        ctx.case((hname, "retrace"), nontrivial=True, kind="driver-retrace", sample={"H": hname, "grid": tv.tolist(), "return_error": rt})
        if not rt <= 1e-11:
            ctx.violation("driver-not-reversible", "retracing the non-uniform grid %s with the stepping loop does not restore the state (error %g)" % (tv.tolist(), rt),
                          {"hamiltonian": {str(k): v for k, v in hd.items()}, "state": zz.tolist(), "grid": tv.tolist(), "order": 4, "error": rt})
            return
        import numba

        @numba.njit
        def never(t, y):
            return 1.0 + y[0] * 0.0
        tv2 = np.linspace(0.0, 6.0, 301)
        plain = sy._integrate_symplectic(zz, tv2, jac_H, clmo_H, 4, 20.0)
        hit, th, yh, trj = sy._integrate_symplectic_until_event(zz, tv2, jac_H, clmo_H, 4, never, 0, 1e-12, 1e-12, 20.0)
        dev = float(np.abs(np.asarray(trj)[-1] - plain[-1]).max())
        ctx.case((hname, "event-loop"), nontrivial=True, kind="driver-event-vs-plain", sample={"H": hname, "steps": 300, "deviation": dev})
        if hit or not dev <= 1e-12:
            ctx.violation("event-loop-differs", "with an event that never fires the event-enabled stepping loop ends %g away from the plain loop" % dev,
                          {"hamiltonian": {str(k): v for k, v in hd.items()}, "state": zz.tolist(), "t_end": 6.0, "steps": 300, "deviation": dev, "hit": bool(hit)})
            return
        # --- long-run energy (bounded, no drift) through the public integrator ------------------------------------
        from hiten.algorithms.integrators.symplectic import _ExtendedSymplectic
        z = np.array([0.2, 0.1, -0.15, 0.05, -0.1, 0.12])
        nst = 20001 if ctx.thorough() else 4001
        tv = np.linspace(0, nst * 0.01, nst)
        sol = _ExtendedSymplectic(order=4, c_omega_heuristic=20.0).integrate(sysm, z, tv)
        Es = np.array([PU.eval_poly_dict(hd, s) for s in sol.states[::50]])
        first, second = np.abs(Es[: len(Es) // 2] - Es[0]).max(), np.abs(Es[len(Es) // 2:] - Es[0]).max()
        ctx.case((hname, "energy"), nontrivial=True, kind="energy", sample={"H": hname, "max_dev_first_half": float(first), "second_half": float(second)})
        ctx.extra.setdefault("energy", {})[hname] = [float(first), float(second)]
        if not (second <= 3 * first + 1e-9):
            ctx.violation("energy-drift", "energy error grows along a long symplectic integration (first half %g, second half %g)" % (first, second),
                          {"hamiltonian": {str(k): v for k, v in hd.items()}, "state": z.tolist(), "steps": nst, "dt": 0.01, "dev": [float(first), float(second)]})
            return
