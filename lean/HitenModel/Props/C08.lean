import HitenModel.Lemmas.C08Mv
import HitenModel.Gen.C08
namespace HitenModel.Props.C08
open HitenModel.C08

theorem placeholder_K : Kpoly 6 3 = 6 := by decide

end HitenModel.Props.C08
