"""C19 — reported connections are geometrically and kinematically what they claim.

Tie 1 (regenerated): `_closest_points_on_segments_2d` (the current `.py_func`) is *symbolically executed on all of its
syntactic paths* (forking re-execution over the tracer's Sym values) and emitted as the piecewise Lean function
`Gen.C19.closestGen` over an arbitrary ordered field; `Props/C19.lean` proves it equal to the hand model
`closestCore` and proves KKT + global optimality for every segment pair.
Tie 2 (correspondence): the hand model of the whole backend (`Core/C19.lean`: counts, prefix sums, fill, mutual-best
dictionaries, nearest neighbours, refinement, result branches, thresholds, stable sort) is executed over `Rat` by
`Drivers/C19.lean` (with `closestGen` plugged in) on lattice clouds and compared with the real
`_ConnectionsBackend.run`, `_radpair2d`, `_nearest_neighbor_2d`, `_refine_pairs_on_section`,
`_closest_points_on_segments_2d` (njit and py_func) and `ConnectionPipeline.solve` (stubbed section extraction):
exactly wherever the exact result is dyadic, to 1e-12 otherwise.
Search: every clause of the property is checked directly on the real outputs with exact rational brute force."""
from __future__ import annotations

import itertools
import math
from fractions import Fraction

import numpy as np

import tracer as T

F = Fraction
ARGS = ["a0x", "a0y", "a1x", "a1y", "b0x", "b0y", "b1x", "b1y"]


# ---------------------------------------------------------------------------------------------------------
# symbolic execution of all syntactic paths
# ---------------------------------------------------------------------------------------------------------

def explore(fn, mkargs, max_paths=4000):
    """Run `fn` on symbolic arguments once per syntactic path.  Returns [(events, result)], events =
    [(op, lhs Sym, rhs Sym, outcome)] in program order (constant-vs-constant comparisons are decided, not recorded)."""
    orig = T.Sym._cmp
    st = {"script": [], "pos": 0, "events": []}

    def _cmp(self, o, op, f):
        o = T.Sym.lift(o)
        if self.is_const() and o.is_const():
            return bool(f(self.val, o.val))
        if st["pos"] < len(st["script"]):
            out = st["script"][st["pos"]]
        else:
            out = True
            st["script"].append(True)
        st["pos"] += 1
        st["events"].append((op, self, o, out))
        return out

    T.Sym._cmp = _cmp
    paths = []
    try:
        script = []
        while True:
            st["script"], st["pos"], st["events"] = list(script), 0, []
            res = fn(*mkargs())
            paths.append((list(st["events"]), tuple(T.Sym.lift(r) for r in res)))
            if len(paths) > max_paths:
                raise RuntimeError("too many paths")
            script = list(st["script"])
            while script and script[-1] is False:
                script.pop()
            if not script:
                break
            script[-1] = False
    finally:
        T.Sym._cmp = orig
    return paths


def build_tree(paths):
    """Merge the paths into a decision tree: ('leaf', result) | ('if', (op, a, b), true_subtree, false_subtree)."""

    def go(ps, depth):
        if len(ps) == 1 and len(ps[0][0]) == depth:
            return ("leaf", ps[0][1])
        heads = {(p[0][depth][0], id(p[0][depth][1]), id(p[0][depth][2])) for p in ps}
        if len(heads) != 1:
            raise RuntimeError("non-deterministic branching structure")
        op, a, b, _ = ps[0][0][depth]
        tt = [p for p in ps if p[0][depth][3]]
        ff = [p for p in ps if not p[0][depth][3]]
        return ("if", (op, a, b), go(tt, depth + 1), go(ff, depth + 1))

    return go(paths, 0)


def tree_nodes(tree, acc):
    if tree[0] == "leaf":
        acc.extend(tree[1])
    else:
        acc.extend([tree[1][1], tree[1][2]])
        tree_nodes(tree[2], acc)
        tree_nodes(tree[3], acc)
    return acc


def count_leaves(tree):
    return 1 if tree[0] == "leaf" else count_leaves(tree[2]) + count_leaves(tree[3])


OPS = {"add": "+", "sub": "-", "mul": "*", "div": "/"}
CMP = {"lt": "<", "le": "≤", "gt": ">", "ge": "≥", "eq": "=", "ne": "≠"}


def emit_lean(tree, fname="closestGen"):
    roots = tree_nodes(tree, [])
    # reference counts over the DAG (each distinct parent counts once, each root occurrence counts once)
    refs = {}
    seen = set()

    def visit(s):
        refs[id(s)] = refs.get(id(s), 0) + 1
        if id(s) in seen:
            return
        seen.add(id(s))
        if s.op in ("var", "const"):
            return
        for a in s.args:
            if isinstance(a, T.Sym):
                visit(a)

    for r in roots:
        visit(r)
    names = {}
    lets = []

    def term(s, top=False):
        if not top and id(s) in names:
            return names[id(s)]
        if s.op == "var":
            return s.args[0]
        if s.op == "const":
            q = s.args[0]
            if q.denominator == 1 and q.numerator in (0, 1):
                return "(%d : K)" % q.numerator
            n = "(natLit %d : K)" % abs(q.numerator)
            if q.denominator != 1:
                n = "(%s / (natLit %d : K))" % (n, q.denominator)
            return "(-%s)" % n if q < 0 else n
        if s.op in OPS:
            return "(%s %s %s)" % (term(s.args[0]), OPS[s.op], term(s.args[1]))
        if s.op == "neg":
            return "(-%s)" % term(s.args[0])
        if s.op == "pow":
            return "(%s)" % " * ".join([term(s.args[0])] * int(s.args[1]))
        raise ValueError("operation %r is outside the ordered-field fragment" % s.op)

    # hoist shared compound nodes in dependency order
    order = []
    done = set()

    def topo(s):
        if id(s) in done:
            return
        done.add(id(s))
        if s.op in ("var", "const"):
            return
        for a in s.args:
            if isinstance(a, T.Sym):
                topo(a)
        order.append(s)

    for r in roots:
        topo(r)
    k = 0
    for s in order:
        if refs.get(id(s), 0) >= 2:
            nm = "n%d" % k
            k += 1
            lets.append("  let %s : K := %s\n" % (nm, term(s, top=True)))
            names[id(s)] = nm

    def emit(t, ind):
        pad = "  " * ind
        if t[0] == "leaf":
            return pad + "(" + ", ".join(term(x) for x in t[1]) + ")\n"
        op, a, b = t[1]
        return (pad + "if %s %s %s then\n" % (term(a), CMP[op], term(b)) + emit(t[2], ind + 1) + pad + "else\n" + emit(t[3], ind + 1))

    txt = "def %s (%s : K) : K × K × K × K × K × K :=\n" % (fname, " ".join(ARGS))
    txt += "".join(lets) + emit(tree, 1)
    return txt


GEN_HEADER = """-- GENERATED by /verif/harness/props/c19.py from /repo's current source on every run. DO NOT EDIT.
-- all syntactic paths of hiten.algorithms.connections.backends._closest_points_on_segments_2d (py_func),
-- executed on symbolic values; shared sub-expressions are let-bound; import-free (runs under `lean --run`).
namespace HitenModel.Gen.C19

section
variable {K : Type} [Add K] [Sub K] [Mul K] [Div K] [Neg K] [LT K] [LE K]
  [DecidableLT K] [DecidableLE K] [DecidableEq K] [OfNat K 0] [OfNat K 1]

/-- numerals other than 0 and 1 (none occur in the unchanged source) -/
def natLit : Nat → K
  | 0 => 0
  | n + 1 => natLit n + 1

"""


def trace_closest():
    from hiten.algorithms.connections import backends as B
    T.reset()
    f = T.retarget(B._closest_points_on_segments_2d)
    paths = explore(f, lambda: [T.Sym.var(n, 0.0) for n in ARGS])
    tree = build_tree(paths)
    return paths, tree


def gen(ctx):
    paths, tree = trace_closest()
    txt = GEN_HEADER + emit_lean(tree) + "\ndef closestGen_paths : Nat := %d\n\nend\n\nend HitenModel.Gen.C19\n" % len(paths)
    ctx.write_gen("HitenModel.Gen.C19", txt)
    ctx.extra["closest_paths"] = len(paths)
    return paths, tree


# ---------------------------------------------------------------------------------------------------------
# exact helpers
# ---------------------------------------------------------------------------------------------------------

def pp(p):
    return "(%s,%s)" % (fr(p[0]), fr(p[1]))


def fr(q):
    q = F(q)
    return str(q.numerator) if q.denominator == 1 else "%d/%d" % (q.numerator, q.denominator)


def pq(s):
    return F(s)


def is_dyadic(q, maxbits=40):
    d = F(q).denominator
    return d & (d - 1) == 0 and d.bit_length() <= maxbits


def same(x, q, exact):
    """float x of the real code vs rational q of the model"""
    x = float(x)
    if not math.isfinite(x):
        return False
    if exact:
        return F(x) == q
    return abs(x - float(q)) <= 1e-12 * (1.0 + abs(float(q)))


def d2q(p, q):
    return (F(p[0]) - F(q[0])) ** 2 + (F(p[1]) - F(q[1])) ** 2


def seg_min_d2(a0, a1, b0, b1):
    """exact minimal squared distance between two closed segments (rational brute force, independent of the routine
    under test): the minimum is 0 at a proper crossing, otherwise it is attained with one endpoint."""
    a0, a1, b0, b1 = [(F(p[0]), F(p[1])) for p in (a0, a1, b0, b1)]

    def pt_seg(p, s0, s1):
        vx, vy = s1[0] - s0[0], s1[1] - s0[1]
        L = vx * vx + vy * vy
        if L == 0:
            return d2q(p, s0)
        t = ((p[0] - s0[0]) * vx + (p[1] - s0[1]) * vy) / L
        t = min(F(1), max(F(0), t))
        return d2q(p, (s0[0] + t * vx, s0[1] + t * vy))

    best = min(pt_seg(a0, b0, b1), pt_seg(a1, b0, b1), pt_seg(b0, a0, a1), pt_seg(b1, a0, a1))
    ux, uy = a1[0] - a0[0], a1[1] - a0[1]
    vx, vy = b1[0] - b0[0], b1[1] - b0[1]
    cr = ux * vy - uy * vx
    if cr != 0:
        wx, wy = b0[0] - a0[0], b0[1] - a0[1]
        s = (wx * vy - wy * vx) / cr
        t = (wx * uy - wy * ux) / cr
        if 0 <= s <= 1 and 0 <= t <= 1:
            best = F(0)
    return best


# ---------------------------------------------------------------------------------------------------------
# generators (everything derives from ctx.rng)
# ---------------------------------------------------------------------------------------------------------

EPS_SET = [F(0), F(1, 2), F(1), F(5, 4), F(3, 2), F(2), F(5, 2), F(3), F(5), F(13, 2)]
TOL_SET = [F(0), F(1, 2), F(1), F(3, 2), F(2), F(5, 2), F(3), F(4), F(6), F(100)]


def gen_cloud(rng, n, style):
    if style == "grid3":
        return [(rng.randrange(3), rng.randrange(3)) for _ in range(n)]
    if style == "collinear":
        dx, dy = rng.choice([(1, 0), (0, 1), (1, 1), (1, -1), (2, 1)])
        ox, oy = rng.randrange(-2, 3), rng.randrange(-2, 3)
        return [(ox + k * dx, oy + k * dy) for k in (rng.randrange(-3, 4) for _ in range(n))]
    if style == "clustered":
        cs = [(rng.randrange(-4, 5), rng.randrange(-4, 5)) for _ in range(2)]
        out = []
        for _ in range(n):
            c = rng.choice(cs)
            out.append((c[0] + rng.randrange(-1, 2), c[1] + rng.randrange(-1, 2)))
        return out
    if style == "dup":
        base = [(rng.randrange(-2, 3), rng.randrange(-2, 3)) for _ in range(max(1, n // 2))]
        return [rng.choice(base) for _ in range(n)]
    if style == "half":
        return [(F(rng.randrange(-8, 9), 2), F(rng.randrange(-8, 9), 2)) for _ in range(n)]
    return [(rng.randrange(-4, 5), rng.randrange(-4, 5)) for _ in range(n)]


def gen_case(rng, small=False):
    style = rng.choice(["grid3", "grid3", "collinear", "clustered", "dup", "half", "lattice"])
    if small:
        style = "grid3"
        nu, ns = rng.randrange(1, 4), rng.randrange(1, 4)
    else:
        nu, ns = rng.choice([1, 2, 3, 4, 5, 6, 8]), rng.choice([1, 2, 3, 4, 5, 6, 8])
    pu = gen_cloud(rng, nu, style)
    ps = gen_cloud(rng, ns, style if rng.random() < 0.7 else "lattice")
    vr = rng.choice([1, 2, 3])
    Xu = [[rng.randrange(-3, 4) for _ in range(3)] + [rng.randrange(-vr, vr + 1) for _ in range(3)] for _ in range(nu)]
    Xs = [[rng.randrange(-3, 4) for _ in range(3)] + [rng.randrange(-vr, vr + 1) for _ in range(3)] for _ in range(ns)]
    tu = None if rng.random() < 0.4 else [rng.randrange(0, 50) for _ in range(nu)]
    ts = None if rng.random() < 0.4 else [rng.randrange(0, 50) for _ in range(ns)]
    eps = rng.choice(EPS_SET[2:]) if rng.random() < 0.75 else rng.choice(EPS_SET)
    dv_tol = rng.choice(TOL_SET[4:]) if rng.random() < 0.75 else rng.choice(TOL_SET)
    return {"pu": pu, "ps": ps, "Xu": Xu, "Xs": Xs, "tu": tu, "ts": ts, "eps": eps,
            "dv_tol": dv_tol, "bal_tol": rng.choice(TOL_SET), "style": style}


def case_lines(c, max_len=F(10 ** 9)):
    L = ["pu " + " ".join(fr(v) for p in c["pu"] for v in p), "ps " + " ".join(fr(v) for p in c["ps"] for v in p),
         "xu " + " ".join(fr(v) for x in c["Xu"] for v in x), "xs " + " ".join(fr(v) for x in c["Xs"] for v in x),
         "tu " + ("none" if c["tu"] is None else " ".join(map(str, c["tu"]))),
         "ts " + ("none" if c["ts"] is None else " ".join(map(str, c["ts"]))),
         "par %s %s %s %s" % (fr(c["eps"]), fr(c["dv_tol"]), fr(c["bal_tol"]), fr(max_len))]
    return L


def arrays(c):
    pu = np.array([[float(v) for v in p] for p in c["pu"]], dtype=float).reshape(-1, 2)
    ps = np.array([[float(v) for v in p] for p in c["ps"]], dtype=float).reshape(-1, 2)
    Xu = np.array([[float(v) for v in x] for x in c["Xu"]], dtype=float).reshape(-1, 6)
    Xs = np.array([[float(v) for v in x] for x in c["Xs"]], dtype=float).reshape(-1, 6)
    tu = None if c["tu"] is None else np.array(c["tu"], dtype=int)
    ts = None if c["ts"] is None else np.array(c["ts"], dtype=int)
    return pu, ps, Xu, Xs, tu, ts


def jsonable(c):
    return {k: ([[fr(v) for v in row] for row in val] if k in ("pu", "ps", "Xu", "Xs") else
                (fr(val) if isinstance(val, F) else val)) for k, val in c.items()}


def unjson(c):
    out = dict(c)
    for k in ("pu", "ps", "Xu", "Xs"):
        out[k] = [[F(v) for v in row] for row in c[k]]
    for k in ("eps", "dv_tol", "bal_tol"):
        out[k] = F(c[k])
    return out


# ---------------------------------------------------------------------------------------------------------
# the real code
# ---------------------------------------------------------------------------------------------------------

def real_run(c):
    from hiten.algorithms.connections.backends import _ConnectionsBackend
    from hiten.algorithms.connections.types import ConnectionsBackendRequest
    pu, ps, Xu, Xs, tu, ts = arrays(c)
    req = ConnectionsBackendRequest(points_u=pu, points_s=ps, states_u=Xu, states_s=Xs, traj_indices_u=tu,
                                    traj_indices_s=ts, eps=float(c["eps"]), dv_tol=float(c["dv_tol"]),
                                    bal_tol=float(c["bal_tol"]))
    resp = _ConnectionsBackend().run(req)
    return resp


class _Dyn:
    def __init__(self):
        self.payloads = []

    def apply_connections(self, payload):
        self.payloads.append(payload)


class _Svc:
    def __init__(self):
        self.dynamics = _Dyn()


class _FakeManifold:
    def __init__(self, stable):
        self.stable = stable
        self.services = _Svc()
        self.result = object()


def real_solve(c):
    """ConnectionPipeline.solve with the section extraction (`to_numeric`) replaced by the given clouds."""
    from hiten.algorithms.connections.base import ConnectionPipeline
    from hiten.algorithms.connections.config import ConnectionConfig
    from hiten.algorithms.connections.interfaces import _ManifoldConnectionInterface
    from hiten.algorithms.connections.options import ConnectionOptions
    from hiten.algorithms.poincare.synodic.config import SynodicMapConfig
    pu, ps, Xu, Xs, tu, ts = arrays(c)
    src, tgt = _FakeManifold(-1), _FakeManifold(1)

    class Stub(_ManifoldConnectionInterface):
        def to_numeric(self, manifold, config, *, direction=None):
            if manifold is src:
                return pu, Xu, tu
            if manifold is tgt:
                return ps, Xs, ts
            raise AssertionError("unknown manifold")

    cfg = ConnectionConfig(section=SynodicMapConfig(section_axis="x", section_offset=0.8, plane_coords=("y", "z")), direction=None)
    pipe = ConnectionPipeline.with_default_engine(config=cfg, interface=Stub())
    opts = ConnectionOptions(delta_v_tol=float(c["dv_tol"]), ballistic_tol=float(c["bal_tol"]), eps2d=float(c["eps"]))
    res = pipe.solve(src, tgt, opts)
    return list(res.connections), src, tgt


# ---------------------------------------------------------------------------------------------------------
# direct (model-independent) check of every clause of the property on real outputs
# ---------------------------------------------------------------------------------------------------------

def first_nn(pts, i):
    best, bj = None, -1
    for j, q in enumerate(pts):
        if j == i:
            continue
        d = d2q(pts[i], q)
        if best is None or d < best:
            best, bj = d, j
    return bj


def direct_check(c, results, rel=1e-12):
    """Returns [(clause_key, message)] of property clauses violated by `results` (real outputs) on input c."""
    from hiten.algorithms.connections import backends as B
    bad = []
    pu, ps = c["pu"], c["ps"]
    eps2 = F(c["eps"]) ** 2
    dv_tol, bal_tol = float(c["dv_tol"]), float(c["bal_tol"])
    seen_i, seen_j = set(), set()
    prev = None
    for r in results:
        i, j = int(r.index_u), int(r.index_s)
        if not (0 <= i < len(pu) and 0 <= j < len(ps)):
            bad.append(("pair-index", "reported index pair (%d,%d) out of range" % (i, j)))
            continue
        d = d2q(pu[i], ps[j])
        tolf = F(1) + F(1, 10 ** 12)
        if d > eps2 * tolf:
            bad.append(("pair-radius", "pair (%d,%d) at distance^2 %s > eps^2 %s" % (i, j, fr(d), fr(eps2))))
        for jj in range(len(ps)):
            if d2q(pu[i], ps[jj]) * tolf < d:
                bad.append(("pair-mutual-nearest", "pair (%d,%d): stable point %d is nearer to unstable point %d" % (i, j, jj, i)))
                break
        for ii in range(len(pu)):
            if d2q(pu[ii], ps[j]) * tolf < d:
                bad.append(("pair-mutual-nearest", "pair (%d,%d): unstable point %d is nearer to stable point %d" % (i, j, ii, j)))
                break
        if i in seen_i or j in seen_j:
            bad.append(("pair-one-to-one", "index reused in pair (%d,%d)" % (i, j)))
        seen_i.add(i)
        seen_j.add(j)
        su, ss = np.asarray(r.state_u, float), np.asarray(r.state_s, float)
        dv_rep = float(r.delta_v)
        dv_true = math.sqrt(sum((float(su[k]) - float(ss[k])) ** 2 for k in (3, 4, 5)))
        if not abs(dv_rep - dv_true) <= 1e-11 * (1.0 + dv_true):
            bad.append(("dv-mismatch", "pair (%d,%d): delta_v %r but |v_u - v_s| of the reported states is %r" % (i, j, dv_rep, dv_true)))
        if not dv_rep <= dv_tol:
            bad.append(("dv-limit", "pair (%d,%d): delta_v %r exceeds limit %r" % (i, j, dv_rep, dv_tol)))
        if (r.kind == "ballistic") != (dv_rep <= bal_tol) or r.kind not in ("ballistic", "impulsive"):
            bad.append(("dv-label", "pair (%d,%d): delta_v %r, ballistic tolerance %r, labelled %r" % (i, j, dv_rep, bal_tol, r.kind)))
        if prev is not None and dv_rep < prev:
            bad.append(("sorted", "results not sorted: %r after %r" % (dv_rep, prev)))
        prev = dv_rep
        # meeting point and reported states
        pt = (float(r.point2d[0]), float(r.point2d[1]))
        iu = first_nn(pu, i) if len(pu) >= 2 else -1
        js = first_nn(ps, j) if len(ps) >= 2 else -1
        Xu, Xs = c["Xu"], c["Xs"]
        if iu < 0 or js < 0:
            want = (float(pu[i][0]), float(pu[i][1]))
            if not (abs(pt[0] - want[0]) <= rel * (1 + abs(want[0])) and abs(pt[1] - want[1]) <= rel * (1 + abs(want[1]))):
                bad.append(("point-fallback", "pair (%d,%d): no local segment, point %r is not the unstable point %r" % (i, j, pt, want)))
            if len(Xu) > i and len(Xs) > j:
                if not (np.allclose(su, [float(v) for v in Xu[i]], rtol=0, atol=1e-12) and np.allclose(ss, [float(v) for v in Xs[j]], rtol=0, atol=1e-12)):
                    bad.append(("state-fallback", "pair (%d,%d): reported states are not the section states" % (i, j)))
        else:
            a0, a1, b0, b1 = pu[i], pu[iu], ps[j], ps[js]
            dmin = seg_min_d2(a0, a1, b0, b1)
            # the reported point must be the midpoint of points P on segment a, Q on segment b with |P-Q| minimal.
            # P, Q are recovered from the reported states' parameters when the segments are non-degenerate:
            # check via the necessary condition  dist(point, seg a) = dist(point, seg b) = sqrt(dmin)/2  and
            # (when the minimiser is unique) against the exact midpoint.
            if rel > 1e-10:
                # float-valued clouds: the interior stationary point is ill-conditioned for nearly parallel segments
                # (relative error ~ 1e-16 * A*C/den); such pairs are left to the exact lattice stream
                ux_, uy_ = float(a1[0]) - float(a0[0]), float(a1[1]) - float(a0[1])
                vx_, vy_ = float(b1[0]) - float(b0[0]), float(b1[1]) - float(b0[1])
                cr_ = ux_ * vy_ - uy_ * vx_
                if cr_ * cr_ < 1e-6 * (ux_ * ux_ + uy_ * uy_) * (vx_ * vx_ + vy_ * vy_):
                    continue
            ptol = 1e-9 if rel <= 1e-10 else 1e-7
            uniq = unique_minimiser(a0, a1, b0, b1)
            if uniq is not None:
                want = ((uniq[0][0] + uniq[1][0]) / 2, (uniq[0][1] + uniq[1][1]) / 2)
                if not (abs(pt[0] - float(want[0])) <= ptol * (1 + abs(float(want[0]))) and abs(pt[1] - float(want[1])) <= ptol * (1 + abs(float(want[1])))):
                    bad.append(("point-midpoint", "pair (%d,%d): point %r is not the midpoint %s of the closest points of segments %s-%s and %s-%s"
                                % (i, j, pt, (fr(want[0]), fr(want[1])), pp(a0), pp(a1), pp(b0), pp(b1))))
            else:
                # non-unique minimiser (parallel overlap): point must lie at distance sqrt(dmin)/2 from both segments
                P = (F(pt[0]), F(pt[1]))
                da = seg_min_d2(P, P, a0, a1)
                db = seg_min_d2(P, P, b0, b1)
                want = float(dmin) / 4.0
                if not (abs(float(da) - want) <= ptol * (1 + want) and abs(float(db) - want) <= ptol * (1 + want)):
                    bad.append(("point-midpoint", "pair (%d,%d): point %r is not midway between segments %s-%s and %s-%s (min dist^2 %s)"
                                % (i, j, pt, pp(a0), pp(a1), pp(b0), pp(b1), fr(dmin))))
    return bad


def unique_minimiser(a0, a1, b0, b1):
    """exact closest points (P,Q) when the minimiser over the two closed segments is unique, else None"""
    a0, a1, b0, b1 = [(F(p[0]), F(p[1])) for p in (a0, a1, b0, b1)]
    ux, uy = a1[0] - a0[0], a1[1] - a0[1]
    vx, vy = b1[0] - b0[0], b1[1] - b0[1]
    dmin = seg_min_d2(a0, a1, b0, b1)
    cr = ux * vy - uy * vx
    A, C = ux * ux + uy * uy, vx * vx + vy * vy
    if cr == 0 and A != 0 and C != 0:
        # parallel non-degenerate: unique iff the projections overlap in at most one point
        # parametrise both on the direction of u
        def par(p):
            return ((p[0] - a0[0]) * ux + (p[1] - a0[1]) * uy) / A
        lo_b, hi_b = sorted([par(b0), par(b1)])
        lo, hi = max(F(0), lo_b), min(F(1), hi_b)
        if lo < hi:
            return None
    # candidates: endpoints projected, crossing point
    cands = []

    def proj(p, s0, s1):
        wx, wy = s1[0] - s0[0], s1[1] - s0[1]
        L = wx * wx + wy * wy
        if L == 0:
            return s0
        t = min(F(1), max(F(0), ((p[0] - s0[0]) * wx + (p[1] - s0[1]) * wy) / L))
        return (s0[0] + t * wx, s0[1] + t * wy)

    for p in (a0, a1):
        cands.append((p, proj(p, b0, b1)))
    for q in (b0, b1):
        cands.append((proj(q, a0, a1), q))
    if cr != 0:
        wx, wy = b0[0] - a0[0], b0[1] - a0[1]
        s = (wx * vy - wy * vx) / cr
        t = (wx * uy - wy * ux) / cr
        if 0 <= s <= 1 and 0 <= t <= 1:
            X = (a0[0] + s * ux, a0[1] + s * uy)
            cands.append((X, X))
    best = [pq_ for pq_ in cands if d2q(pq_[0], pq_[1]) == dmin]
    uniq = {(p, q) for p, q in best}
    if len(uniq) == 1:
        return best[0]
    return None


# ---------------------------------------------------------------------------------------------------------
# correspondence
# ---------------------------------------------------------------------------------------------------------

def parse_conn(line):
    head, su, ss, seg = [x.strip() for x in line.split("|")]
    w = head.split()
    assert w[0] == "conn"
    segv = None if seg == "none" else seg.split()
    return {"ballistic": w[1] == "1", "dv2": F(w[2]), "pt": (F(w[3]), F(w[4])), "iu": int(w[5]), "is": int(w[6]),
            "tu": int(w[7]), "ts": int(w[8]), "su": [F(x) for x in su.split()], "ss": [F(x) for x in ss.split()],
            "seg": None if segv is None else (int(segv[0]), int(segv[1]), F(segv[2]), F(segv[3]))}


def conn_exact(m):
    return m["seg"] is None or (is_dyadic(m["seg"][2]) and is_dyadic(m["seg"][3]))


def compare_results(c, model, results):
    """model: list of parsed conn dicts (model order); results: real _ConnectionResult list. Returns None or message."""
    if len(model) != len(results):
        return "model reports %d connections, code %d" % (len(model), len(results))
    # group by equal model dv2 (stable order inside a group is only guaranteed when the floats are exact)
    k = 0
    n = len(model)
    while k < n:
        e = k
        while e + 1 < n and model[e + 1]["dv2"] == model[k]["dv2"]:
            e += 1
        grp_m = model[k:e + 1]
        grp_r = list(results[k:e + 1])
        if all(conn_exact(m) for m in grp_m):
            pairs = list(zip(grp_m, grp_r))
        else:
            key = lambda r: (int(r.index_u), int(r.index_s))
            rm = {key(r): r for r in grp_r}
            pairs = []
            for m in grp_m:
                if (m["iu"], m["is"]) not in rm:
                    return "connection (%d,%d) of the model missing in the code's results at this rank" % (m["iu"], m["is"])
                pairs.append((m, rm[(m["iu"], m["is"])]))
        for m, r in pairs:
            ex = conn_exact(m)
            if (int(r.index_u), int(r.index_s)) != (m["iu"], m["is"]):
                return "rank %d: model pair (%d,%d), code pair (%d,%d)" % (k, m["iu"], m["is"], r.index_u, r.index_s)
            if (r.kind == "ballistic") != m["ballistic"]:
                return "pair (%d,%d): kind %s vs model ballistic=%s" % (m["iu"], m["is"], r.kind, m["ballistic"])
            dv = float(r.delta_v)
            if ex:
                okdv = (dv == math.sqrt(float(m["dv2"]))) if m["dv2"].denominator.bit_length() < 50 else False
            else:
                okdv = abs(dv * dv - float(m["dv2"])) <= 1e-11 * (1 + float(m["dv2"]))
            if not okdv:
                return "pair (%d,%d): delta_v %r vs model dv^2 %s" % (m["iu"], m["is"], dv, fr(m["dv2"]))
            if not (same(r.point2d[0], m["pt"][0], ex) and same(r.point2d[1], m["pt"][1], ex)):
                return "pair (%d,%d): point %r vs model %s" % (m["iu"], m["is"], r.point2d, (fr(m["pt"][0]), fr(m["pt"][1])))
            su, ss = np.asarray(r.state_u, float).ravel(), np.asarray(r.state_s, float).ravel()
            if len(su) != len(m["su"]) or len(ss) != len(m["ss"]) or not all(same(x, q, ex) for x, q in zip(su, m["su"])) \
                    or not all(same(x, q, ex) for x, q in zip(ss, m["ss"])):
                return "pair (%d,%d): reported states %r / %r vs model %s / %s" % (
                    m["iu"], m["is"], su.tolist(), ss.tolist(), [fr(x) for x in m["su"]], [fr(x) for x in m["ss"]])
            if (int(r.trajectory_index_u), int(r.trajectory_index_s)) != (m["tu"], m["ts"]):
                return "pair (%d,%d): trajectory indices %r vs model %r" % (
                    m["iu"], m["is"], (r.trajectory_index_u, r.trajectory_index_s), (m["tu"], m["ts"]))
        k = e + 1
    return None


def ambiguous(c, model_all_pairs_dv2):
    """True when a threshold decision of an inexact (non-dyadic) result is too close to call in floats"""
    for dv2, exact in model_all_pairs_dv2:
        if exact:
            continue
        for tol in (c["dv_tol"], c["bal_tol"]):
            t2 = float(tol) ** 2
            if abs(float(dv2) - t2) <= 1e-9 * (1 + t2):
                return True
    return False


def viol(ctx, key, what, replay):
    """one concrete violation per input class (key), at most 8 per run"""
    seen = ctx.extra.setdefault("violation_keys", [])
    if key in seen or len(seen) >= 8:
        return
    seen.append(key)
    ctx.violation(key, what, replay)


def broken(ctx, name, msg):
    if not any(n == name for n, _ in ctx.broken):
        ctx.broken.append((name, msg))
    ctx.obligations[name] = False


def report_direct(ctx, c, results, where):
    bad = direct_check(c, results)
    for key, msg in bad[:3]:
        viol(ctx, "%s:%s" % (where, key), msg, {"kind": "run", "where": where, "input": jsonable(c), "clause": key,
                                                    "observed": [describe(r) for r in results][:8]})
    return bad


def describe(r):
    return {"kind": r.kind, "delta_v": float(r.delta_v), "point2d": [float(r.point2d[0]), float(r.point2d[1])],
            "state_u": np.asarray(r.state_u, float).tolist(), "state_s": np.asarray(r.state_s, float).tolist(),
            "index_u": int(r.index_u), "index_s": int(r.index_s),
            "trajectory_index_u": int(r.trajectory_index_u), "trajectory_index_s": int(r.trajectory_index_s)}


def corr_run(ctx, cases, use_pipeline=False, name="correspondence:backend.run"):
    """model vs real `_ConnectionsBackend.run` (or ConnectionPipeline.solve) on the given cases"""
    text = []
    for c in cases:
        text += case_lines(c) + ["run"]
    out = [l for l in ctx.lean_run("Drivers/C19.lean", "\n".join(text) + "\n") if l.strip()]
    pos = 0
    ok = True
    nbad = 0
    for c in cases:
        hdr = out[pos].split()
        assert hdr[0] == "n", out[pos]
        n = int(hdr[1])
        considered = int(hdr[3])
        model = [parse_conn(l) for l in out[pos + 1: pos + 1 + n]]
        pos += 1 + n
        try:
            if use_pipeline:
                results, src, tgt = real_solve(c)
                meta = None
            else:
                resp = real_run(c)
                results, meta = list(resp.results), resp.metadata
        except Exception as e:  # the real code must not raise on a well-formed request
            ok = False
            nbad += 1
            ctx.case(key=("run-exception", type(e).__name__), kind="run:exception")
            broken(ctx, name, "real code raised %r on input %r" % (e, jsonable(c)))
            continue
        nontriv = len(results) > 0
        ctx.case(key=("run", c["style"], len(c["pu"]), len(c["ps"]), len(results), tuple(sorted((m["seg"] is not None) for m in model)),
                      tuple(m["ballistic"] for m in model)),
                 nontrivial=nontriv, kind=("pipeline:" if use_pipeline else "run:") + c["style"] + (":hit" if nontriv else ":empty"),
                 sample={"input": jsonable(c), "n_results": len(results)} if nontriv else None)
        ctx.corr_cases += 1
        bad = report_direct(ctx, c, results, "solve" if use_pipeline else "run")
        msg = compare_results(c, model, results)
        if msg is None and meta is not None and len(results) > 0:
            if meta.get("accepted") != len(results) or meta.get("pairs_considered") != considered:
                msg = "metadata %r vs model accepted=%d pairs_considered=%d" % (meta, len(results), considered)
        if msg is None and use_pipeline:
            # both manifolds received the payload with exactly these connections
            for mf in (src, tgt):
                pl = mf.services.dynamics.payloads
                if len(pl) != 1 or list(pl[0].connections) != results:
                    msg = "apply_connections payload differs from the returned results"
        if msg is not None:
            ok = False
            nbad += 1
            if nbad <= 3:
                broken(ctx, name, "model and code disagree: %s on input %r" % (msg, jsonable(c)))
    if ok:
        ctx.obligations.setdefault(name, True)
    return ok


def corr_parts(ctx, cases):
    """model vs the numba kernels one by one: _pair_counts, _exclusive_prefix_sum, _radpair2d, _nearest_neighbor_2d,
    _refine_pairs_on_section (njit and py_func, explicit max_seg_len)"""
    from hiten.algorithms.connections import backends as B
    text = []
    plan = []
    for c in cases:
        pu, ps, Xu, Xs, tu, ts = arrays(c)
        nu, ns = len(c["pu"]), len(c["ps"])
        k = ctx.rng.randrange(0, 6)
        prs = [(ctx.rng.randrange(nu), ctx.rng.randrange(ns)) for _ in range(k)]
        ml = ctx.rng.choice([F(1), F(2), F(3), F(5), F(10 ** 9)])
        plan.append((c, prs, ml))
        text += case_lines(c, ml) + ["radpair", "nn u", "nn s", "refine " + " ".join("%d %d" % p for p in prs)]
    out = [l for l in ctx.lean_run("Drivers/C19.lean", "\n".join(text) + "\n") if l.strip()]
    pos = 0
    names = ["correspondence:pair_counts+prefix_sum", "correspondence:radpair2d", "correspondence:nearest_neighbor_2d",
             "correspondence:refine_pairs_on_section"]
    okall = {n: True for n in names}
    for c, prs, ml in plan:
        pu, ps, Xu, Xs, tu, ts = arrays(c)
        counts_m = [int(x) for x in out[pos].split()[1:]]
        offs_m = [int(x) for x in out[pos + 1].split()[1:]]
        pairs_m = out[pos + 2].split()[1:]
        nnu_m = [int(x) for x in out[pos + 3].split()[1:]]
        nns_m = [int(x) for x in out[pos + 4].split()[1:]]
        ref_m = out[pos + 5][len("refine"):].strip()
        pos += 6
        ctx.case(key=("parts", c["style"], len(c["pu"]), len(c["ps"]), len(pairs_m), fr(c["eps"])), nontrivial=len(pairs_m) > 0,
                 kind="parts:" + c["style"])
        r2 = float(c["eps"]) * float(c["eps"])
        counts = B._pair_counts(pu, ps, r2)
        offs = B._exclusive_prefix_sum(counts)
        if counts.tolist() != counts_m or offs.tolist() != offs_m:
            okall[names[0]] = False
            broken(ctx, names[0], "counts/offs %r %r vs model %r %r on %r" % (counts.tolist(), offs.tolist(), counts_m, offs_m, jsonable(c)))
        prs_real = B._radpair2d(pu, ps, float(c["eps"]))
        got = ["%d,%d" % (int(a), int(b)) for a, b in prs_real]
        if got != pairs_m:
            okall[names[1]] = False
            broken(ctx, names[1], "pairs %r vs model %r on %r" % (got, pairs_m, jsonable(c)))
        # direct: the pairs array is exactly the set of in-radius pairs (exact rational brute force)
        eps2 = F(c["eps"]) ** 2
        want = ["%d,%d" % (i, j) for i in range(len(c["pu"])) for j in range(len(c["ps"])) if d2q(c["pu"][i], c["ps"][j]) <= eps2]
        if got != want:
            viol(ctx, "radpair:pairs-array", "_radpair2d returns %r, in-radius pairs are %r" % (got, want),
                          {"kind": "radpair", "input": jsonable(c), "expected": want, "observed": got})
        for pts, arr, nn_m, tag in ((c["pu"], pu, nnu_m, "u"), (c["ps"], ps, nns_m, "s")):
            nn = B._nearest_neighbor_2d(arr).tolist() if len(pts) >= 1 else []
            if nn != nn_m:
                okall[names[2]] = False
                broken(ctx, names[2], "nn %r vs model %r on points %r" % (nn, nn_m, [[fr(v) for v in p] for p in pts]))
            for i, j in enumerate(nn):
                w = first_nn(pts, i)
                if (w < 0) != (j < 0) or (j >= 0 and (j == i or d2q(pts[i], pts[j]) != d2q(pts[i], pts[w]))):
                    viol(ctx, "nearest-neighbor", "nearest neighbour of point %d is reported as %d, brute force %d" % (i, j, w),
                                  {"kind": "nn", "points": [[fr(v) for v in p] for p in pts], "observed": nn})
                    break
        # refinement on arbitrary pairs with explicit max_seg_len
        if prs:
            nn_u = B._nearest_neighbor_2d(pu) if len(c["pu"]) >= 2 else np.full(len(c["pu"]), -1, dtype=np.int64)
            nn_s = B._nearest_neighbor_2d(ps) if len(c["ps"]) >= 2 else np.full(len(c["ps"]), -1, dtype=np.int64)
            pr = np.asarray(prs, dtype=np.int64)
            for fn, tag in ((B._refine_pairs_on_section, "njit"), (B._refine_pairs_on_section.py_func, "py")):
                if tag == "py" and ctx.rng.random() < 0.5:
                    continue
                rstar, u0, u1, s0, s1, sv, tv, valid = fn(pu, ps, pr, nn_u.astype(np.int64), nn_s.astype(np.int64), float(ml))
                rows_m = [x.split() for x in ref_m.split(";")]
                for k, row in enumerate(rows_m):
                    s_m, t_m = F(row[6]), F(row[7])
                    ex = is_dyadic(s_m) and is_dyadic(t_m)
                    okrow = (same(rstar[k, 0], F(row[0]), ex) and same(rstar[k, 1], F(row[1]), ex)
                             and [int(u0[k]), int(u1[k]), int(s0[k]), int(s1[k])] == [int(x) for x in row[2:6]]
                             and same(sv[k], s_m, ex) and same(tv[k], t_m, ex) and bool(valid[k]) == (row[8] == "1"))
                    if not okrow:
                        okall[names[3]] = False
                        broken(ctx, names[3], "%s pair %r max_seg_len %s: code (%r,%r,%d,%d,%d,%d,%r,%r,%r) vs model %r on %r" % (
                            tag, prs[k], fr(ml), rstar[k, 0], rstar[k, 1], u0[k], u1[k], s0[k], s1[k], sv[k], tv[k], bool(valid[k]),
                            row, jsonable(c)))
                        break
    for n in names:
        if okall[n]:
            ctx.obligations.setdefault(n, True)
    return all(okall.values())


def closest_real(fn, seg):
    return fn(*[float(v) for v in seg])


def corr_closest(ctx, segs, name="correspondence:closest_points_on_segments_2d"):
    """traced model (closestGen), hand model (closestCore) and the real routine (njit + py_func) on the same segment
    pairs; plus the direct optimality check of the real outputs against an exact rational brute force."""
    from hiten.algorithms.connections import backends as B
    text = ["closest " + " ".join(fr(v) for v in s) for s in segs]
    out = [l for l in ctx.lean_run("Drivers/C19.lean", "\n".join(text) + "\n") if l.strip()]
    ok = True
    nviol = 0
    for idx, (s, line) in enumerate(zip(segs, out)):
        g, h = line[len("closest"):].split("|")
        gen = [F(x) for x in g.split()]
        core = [F(x) for x in h.split()]
        a0, a1, b0, b1 = (s[0], s[1]), (s[2], s[3]), (s[4], s[5]), (s[6], s[7])
        ux, uy, vx, vy = s[2] - s[0], s[3] - s[1], s[6] - s[4], s[7] - s[5]
        par = (ux * vy - uy * vx) == 0
        cls = "degenerate" if (ux == uy == 0 or vx == vy == 0) else ("parallel" if par else "general")
        ctx.case(key=("closest", cls, fr(gen[0]), fr(gen[1]), fr(d2q((gen[2], gen[3]), (gen[4], gen[5])))), kind="closest:" + cls)
        if gen != core:
            ok = False
            broken(ctx, name, "traced closestGen %r differs from hand model closestCore %r on %r" % (
                [fr(x) for x in gen], [fr(x) for x in core], [fr(v) for v in s]))
        ex = is_dyadic(gen[0]) and is_dyadic(gen[1])
        fns = [(B._closest_points_on_segments_2d, "njit")]
        if idx % 4 == 0:
            fns.append((B._closest_points_on_segments_2d.py_func, "py"))
        for fn, tag in fns:
            r = closest_real(fn, s)
            ctx.traces_validated += 1  # traced closestGen (run by the driver) vs the real routine
            if not all(same(x, q, ex) for x, q in zip(r, gen)):
                ok = False
                broken(ctx, name, "%s returns %r, model %r on segments %r" % (tag, tuple(float(x) for x in r), [fr(x) for x in gen], [fr(v) for v in s]))
            # direct optimality check of the real output
            sv, tv, px, py, qx, qy = [float(x) for x in r]
            dmin = seg_min_d2(a0, a1, b0, b1)
            d = d2q((F(px), F(py)), (F(qx), F(qy)))
            on_a = seg_min_d2((F(px), F(py)), (F(px), F(py)), a0, a1)
            on_b = seg_min_d2((F(qx), F(qy)), (F(qx), F(qy)), b0, b1)
            scale = 1 + float(d2q(a0, b0)) + float(d2q(a0, a1)) + float(d2q(b0, b1))
            if not (0.0 <= sv <= 1.0 and 0.0 <= tv <= 1.0 and float(on_a) <= 1e-18 * scale and float(on_b) <= 1e-18 * scale
                    and float(d) <= float(dmin) + 1e-9 * scale):
                nviol += 1
                if nviol <= 3:
                    viol(ctx, "closest:%s" % cls,
                                  "closest points of segments %s-%s and %s-%s: returned s=%r t=%r P=(%r,%r) Q=(%r,%r) at distance^2 %r, true minimum %s"
                                  % (pp(a0), pp(a1), pp(b0), pp(b1), sv, tv, px, py, qx, qy, float(d), fr(dmin)),
                                  {"kind": "closest", "segments": [fr(v) for v in s], "expected_min_dist2": fr(dmin),
                                   "observed": [sv, tv, px, py, qx, qy], "impl": tag})
    if ok:
        ctx.obligations.setdefault(name, True)
    return ok


# ---------------------------------------------------------------------------------------------------------
# float-valued clouds: direct check only (numerical shell; generous margins)
# ---------------------------------------------------------------------------------------------------------

def float_cases(ctx, n):
    rng = ctx.rng
    for _ in range(n):
        nu, ns = rng.randrange(1, 40), rng.randrange(1, 40)
        kind = rng.choice(["uniform", "clustered", "curve"])
        if kind == "uniform":
            pu = [(rng.uniform(-1, 1), rng.uniform(-1, 1)) for _ in range(nu)]
            ps = [(rng.uniform(-1, 1), rng.uniform(-1, 1)) for _ in range(ns)]
        elif kind == "clustered":
            cs = [(rng.uniform(-1, 1), rng.uniform(-1, 1)) for _ in range(3)]
            pu = [(c[0] + rng.gauss(0, 0.05), c[1] + rng.gauss(0, 0.05)) for c in (rng.choice(cs) for _ in range(nu))]
            ps = [(c[0] + rng.gauss(0, 0.05), c[1] + rng.gauss(0, 0.05)) for c in (rng.choice(cs) for _ in range(ns))]
        else:
            ph = rng.uniform(0, 6.28)
            pu = [(math.cos(6.28 * k / nu), 0.6 * math.sin(6.28 * k / nu)) for k in range(nu)]
            ps = [(0.8 * math.cos(6.28 * k / ns + ph) + 0.1, 0.9 * math.sin(6.28 * k / ns + ph)) for k in range(ns)]
        Xu = [[rng.uniform(-1, 1) for _ in range(6)] for _ in range(nu)]
        Xs = [[rng.uniform(-1, 1) for _ in range(6)] for _ in range(ns)]
        yield {"pu": pu, "ps": ps, "Xu": Xu, "Xs": Xs, "tu": None, "ts": [rng.randrange(9) for _ in range(ns)],
               "eps": rng.choice([0.05, 0.2, 0.5, 3.0]), "dv_tol": rng.choice([0.3, 1.0, 2.0, 10.0]),
               "bal_tol": rng.choice([0.1, 0.5, 1.5]), "style": "float-" + kind}


def jsonable_f(c):
    return {k: (val if k not in ("pu", "ps", "Xu", "Xs") else [list(map(float, r)) for r in val]) for k, val in c.items()}


def float_segments(ctx, n):
    """`_closest_points_on_segments_2d` on float data in general position AND on (nearly) parallel / collinear segments whose coordinates are
    not exactly representable -- there `den` is rounding noise instead of 0: the returned pair must still be (up to rounding) a closest pair.
    Reference: exact minimisation over the rational images of the same floats (the minimum of a convex quadratic over the unit square is
    attained at a vertex, on an edge projection or at the interior stationary point)."""
    from hiten.algorithms.connections.backends import _closest_points_on_segments_2d as cp
    rng = ctx.rng

    def exact_min(a0, a1, b0, b1):
        a0, a1, b0, b1 = [tuple(F(float(x)) for x in p) for p in (a0, a1, b0, b1)]
        u = (a1[0] - a0[0], a1[1] - a0[1])
        v = (b1[0] - b0[0], b1[1] - b0[1])

        def d2(s_, t_):
            px, py = a0[0] + s_ * u[0], a0[1] + s_ * u[1]
            qx, qy = b0[0] + t_ * v[0], b0[1] + t_ * v[1]
            return (px - qx) ** 2 + (py - qy) ** 2

        def proj(p, q0, q1):     # parameter of the point of segment q closest to p
            w = (q1[0] - q0[0], q1[1] - q0[1])
            ww = w[0] * w[0] + w[1] * w[1]
            if ww == 0:
                return F(0)
            return min(F(1), max(F(0), ((p[0] - q0[0]) * w[0] + (p[1] - q0[1]) * w[1]) / ww))
        cands = []
        for s_ in (F(0), F(1)):
            p = (a0[0] + s_ * u[0], a0[1] + s_ * u[1])
            cands.append(d2(s_, proj(p, b0, b1)))
        for t_ in (F(0), F(1)):
            q = (b0[0] + t_ * v[0], b0[1] + t_ * v[1])
            cands.append(d2(proj(q, a0, a1), t_))
        A, B, C = u[0] * u[0] + u[1] * u[1], u[0] * v[0] + u[1] * v[1], v[0] * v[0] + v[1] * v[1]
        w = (a0[0] - b0[0], a0[1] - b0[1])
        D, E = u[0] * w[0] + u[1] * w[1], v[0] * w[0] + v[1] * w[1]
        den = A * C - B * B
        if den > 0:
            s_, t_ = (B * E - C * D) / den, (A * E - B * D) / den
            if 0 <= s_ <= 1 and 0 <= t_ <= 1:
                cands.append(d2(s_, t_))
        return min(cands)

    for k in range(n):
        kind = ["general", "parallel", "antiparallel", "collinear", "nearly-parallel"][k % 5]
        a0 = np.array([rng.uniform(-1, 1), rng.uniform(-1, 1)])
        u = np.array([rng.uniform(-1, 1), rng.uniform(-1, 1)])
        b0 = np.array([rng.uniform(-1, 1), rng.uniform(-1, 1)])
        if kind == "general":
            v = np.array([rng.uniform(-1, 1), rng.uniform(-1, 1)])
        elif kind == "nearly-parallel":
            v = rng.uniform(0.2, 2.0) * u + np.array([rng.uniform(-1, 1), rng.uniform(-1, 1)]) * 10.0 ** rng.uniform(-15, -9)
        else:
            v = rng.uniform(0.2, 2.0) * (-1 if kind == "antiparallel" else 1) * u       # parallel in the reals, rounded in floats
            if kind == "collinear":
                b0 = a0 + rng.uniform(-2, 2) * u
        a1, b1 = a0 + u, b0 + v
        s_, t_, px, py, qx, qy = cp(a0[0], a0[1], a1[0], a1[1], b0[0], b0[1], b1[0], b1[1])
        got = math.hypot(px - qx, py - qy)
        best = math.sqrt(float(exact_min(a0, a1, b0, b1)))
        ctx.case(("float-segments", kind, k), nontrivial=kind != "general", kind="float-segments:" + kind)
        if not (0.0 <= s_ <= 1.0 and 0.0 <= t_ <= 1.0 and got <= best + 1e-9 * (1.0 + best)):
            viol(ctx, "closest:float:%s" % kind,
                 "%s float segments: the returned points are %.6g apart (s=%r, t=%r), the closest points of the two segments are %.6g apart" % (kind, got, s_, t_, best),
                 {"kind": "float-segments", "a0": a0.tolist(), "a1": a1.tolist(), "b0": b0.tolist(), "b1": b1.tolist(), "returned_s_t": [float(s_), float(t_)],
                  "returned_distance": got, "minimum_distance": best})
            return


def float_search(ctx, n):
    float_segments(ctx, 4 * n)
    for c in float_cases(ctx, n):
        resp = real_run(c)
        results = list(resp.results)
        ctx.case(key=("float", c["style"], len(c["pu"]), len(c["ps"]), len(results)), nontrivial=len(results) > 0, kind=c["style"])
        bad = direct_check(c, results, rel=1e-9)
        for key, msg in bad[:2]:
            viol(ctx, "run-float:%s" % key, msg, {"kind": "run-float", "input": jsonable_f(c), "clause": key,
                                                      "observed": [describe(r) for r in results][:8]})


# ---------------------------------------------------------------------------------------------------------
# segment generators
# ---------------------------------------------------------------------------------------------------------

def grid_segments(m):
    """all pairs of segments with endpoints on the m x m grid"""
    pts = [(x, y) for x in range(m) for y in range(m)]
    for a0, a1, b0, b1 in itertools.product(pts, repeat=4):
        yield (F(a0[0]), F(a0[1]), F(a1[0]), F(a1[1]), F(b0[0]), F(b0[1]), F(b1[0]), F(b1[1]))


def random_segments(rng, n):
    out = []
    for _ in range(n):
        kind = rng.choice(["general", "parallel", "collinear", "degenerate", "half", "tiny", "tiny"])
        R = 6
        a0 = (rng.randrange(-R, R + 1), rng.randrange(-R, R + 1))
        u = (rng.randrange(-R, R + 1), rng.randrange(-R, R + 1))
        b0 = (rng.randrange(-R, R + 1), rng.randrange(-R, R + 1))
        if kind == "general":
            v = (rng.randrange(-R, R + 1), rng.randrange(-R, R + 1))
        elif kind == "parallel":
            k = rng.choice([-3, -2, -1, 1, 2, 3])
            v = (k * u[0], k * u[1])
        elif kind == "collinear":
            k = rng.choice([-2, -1, 1, 2])
            v = (k * u[0], k * u[1])
            m = rng.randrange(-3, 4)
            b0 = (a0[0] + m * u[0], a0[1] + m * u[1])
        elif kind == "degenerate":
            v = (rng.randrange(-R, R + 1), rng.randrange(-R, R + 1))
            w = rng.randrange(3)
            if w == 0:
                u = (0, 0)
            elif w == 1:
                v = (0, 0)
            else:
                u = v = (0, 0)
        else:
            v = (rng.randrange(-R, R + 1), rng.randrange(-R, R + 1))
        # "tiny": the same lattice geometry at scale 2^-14 (still exact in floats): absolute thresholds on den ~ length^4 show up here
        sc = F(1, 2) if kind == "half" else (F(1, 2 ** 14) if kind == "tiny" else F(1))
        seg = [a0[0], a0[1], a0[0] + u[0], a0[1] + u[1], b0[0], b0[1], b0[0] + v[0], b0[1] + v[1]]
        out.append(tuple(F(x) * sc for x in seg))
    return out


# ---------------------------------------------------------------------------------------------------------
# entry points
# ---------------------------------------------------------------------------------------------------------

PROPS = ["HitenModel.Props.C19"]
SRC = ["HitenModel.Props.C19", "HitenModel.Lemmas.C19", "HitenModel.Lemmas.C19Pairs", "HitenModel.Core.C19", "HitenModel.Gen.C19"]


def run(ctx):
    try:
        gen(ctx)
    except Exception as e:  # the source left the ordered-field fragment or cannot be executed symbolically
        broken(ctx, "trace:closest_points_on_segments_2d", "symbolic execution failed: %r" % (e,))
    ok = ctx.lean_build(PROPS)
    if ok:
        ctx.lean_audit(PROPS, SRC)
        if ctx.thorough():
            ctx.leanchecker(PROPS)
    th = ctx.thorough()
    rng = ctx.rng
    # 1. closest points: exhaustive 3x3 grid (6561 segment pairs) + random lattice/half-lattice segments
    segs = list(grid_segments(3)) + random_segments(rng, 8000 if th else 1500)
    if th:
        segs += list(grid_segments(4))  # every pair of segments on the 4x4 grid (65536)
    try:
        for k in range(0, len(segs), 4000):
            corr_closest(ctx, segs[k:k + 4000])
        ctx.log("closest-point correspondence on %d segment pairs done" % len(segs))
    except RuntimeError as e:
        broken(ctx, "correspondence:closest_points_on_segments_2d", "driver failed: %s" % str(e)[-800:])
        direct_only_closest(ctx, segs)
    # 2. whole backend on lattice clouds
    cases = [gen_case(rng, small=True) for _ in range(3000 if th else 500)] + [gen_case(rng) for _ in range(6000 if th else 900)]
    # the same lattice clouds at scale 2^-24 (section coordinates, radius): still exact in floats; squared distances are ~1e-15..1e-13,
    # where anything absolute (rounding to a fixed number of decimals, absolute guards) decides differently from the exact rule
    micro = []
    for _ in range(1500 if th else 300):
        c = gen_case(rng)
        sc = F(1, 2 ** 24)
        c["pu"] = [(F(x) * sc, F(y) * sc) for x, y in c["pu"]]
        c["ps"] = [(F(x) * sc, F(y) * sc) for x, y in c["ps"]]
        c["eps"] = F(c["eps"]) * sc
        c["style"] = "micro-" + c["style"]
        micro.append(c)
    cases += micro
    try:
        for k in range(0, len(cases), 700):
            corr_run(ctx, cases[k:k + 700])
        ctx.log("backend.run correspondence on %d clouds done" % len(cases))
        pcs = [gen_case(rng) for _ in range(200 if th else 40)]
        for c in pcs:  # ConnectionOptions rejects non-positive values
            for k in ("eps", "dv_tol", "bal_tol"):
                if c[k] <= 0:
                    c[k] = F(1, 2)
        corr_run(ctx, pcs, use_pipeline=True, name="correspondence:ConnectionPipeline.solve")
        parts = [gen_case(rng, small=(k % 3 == 0)) for k in range(2400 if th else 400)]
        corr_parts(ctx, parts)
        ctx.log("kernel-by-kernel correspondence on %d clouds done" % len(parts))
    except RuntimeError as e:
        broken(ctx, "correspondence:backend.run", "driver failed: %s" % str(e)[-800:])
        for c in cases:
            report_direct(ctx, c, list(real_run(c).results), "run")
    # 3. float-valued clouds, direct check of the clauses
    float_search(ctx, 800 if th else 120)
    ctx.search_ran = True
    ctx.rule = ("closest points: every pair of segments with endpoints on the 3x3 grid (6561) plus seeded random lattice/half-lattice "
                "segments (general, parallel, collinear, degenerate); clouds: 1-8 lattice points per side (3x3 grid, collinear, "
                "clustered, duplicated, half-integer), integer 6-D states, radii/tolerances from dyadic sets that contain the tie "
                "values; a case is non-trivial when at least one connection is reported (run) / one pair is in radius (parts); "
                "distinct by (style, sizes, number of results, refined/fallback pattern, labels) resp. by (class, s, t, distance)")
    ctx.extra["exactness"] = ("model over Rat; real code in float64; compared for exact equality whenever the model's segment "
                              "parameters s,t are dyadic (then every float operation is exact), to 1e-12 relative otherwise")


def direct_only_closest(ctx, segs):
    from hiten.algorithms.connections import backends as B
    for s in segs:
        r = closest_real(B._closest_points_on_segments_2d, s)
        sv, tv, px, py, qx, qy = [float(x) for x in r]
        a0, a1, b0, b1 = (s[0], s[1]), (s[2], s[3]), (s[4], s[5]), (s[6], s[7])
        dmin = seg_min_d2(a0, a1, b0, b1)
        d = d2q((F(px), F(py)), (F(qx), F(qy)))
        scale = 1 + float(d2q(a0, b0)) + float(d2q(a0, a1)) + float(d2q(b0, b1))
        if not (0.0 <= sv <= 1.0 and 0.0 <= tv <= 1.0 and float(d) <= float(dmin) + 1e-9 * scale):
            viol(ctx, "closest:direct", "closest points of %r: distance^2 %r, true minimum %s" % ([fr(v) for v in s], float(d), fr(dmin)),
                          {"kind": "closest", "segments": [fr(v) for v in s], "expected_min_dist2": fr(dmin), "observed": [sv, tv, px, py, qx, qy]})
            return


def replay(ctx, rec):
    """Re-run a recorded failing input against the real code."""
    from hiten.algorithms.connections import backends as B
    rp = rec.get("replay", rec)
    kind = rp.get("kind")
    if kind == "closest":
        s = tuple(F(v) for v in rp["segments"])
        direct_only_closest(ctx, [s])
    elif kind in ("run", "run-float"):
        c = unjson(rp["input"]) if kind == "run" else rp["input"]
        if rp.get("where") == "solve":
            results = real_solve(c)[0]
        else:
            results = list(real_run(c).results)
        for key, msg in direct_check(c, results, rel=1e-12 if kind == "run" else 1e-9)[:3]:
            viol(ctx, "%s:%s" % (rp.get("where", "run"), key), msg, {"kind": kind, "input": rp["input"], "clause": key,
                                                                         "observed": [describe(r) for r in results][:8]})
    else:
        run(ctx)
        return
    ctx.obligations["replay-executed"] = True
