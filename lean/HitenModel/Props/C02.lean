/-
  Props/C02.lean — property C02: integrators deliver their declared order.
  `Gen.C02` is regenerated from /repo on every run: `*_tab*` are the live coefficient arrays (exact dyadic value of
  every float64), `*_eff*` the *effective* tableau extracted by running the current stepping kernel on symbolic data
  with a recording vector field (so an indexing / wiring slip in the kernel shows up here), `*_ham*` the same for the
  polynomial-Hamiltonian twin kernels.  Finite tables are decided by `decide +kernel` over the complete set of plane
  rooted trees (`Lemmas/Trees.lean` proves the enumeration complete).  Tolerance 2^-40 (2^-30 for the DOP853
  interpolant whose D-coefficients are O(10^3)): the tables are float64 roundings of the exact rationals.
  Background theorem (Butcher): order conditions up to p ⇒ local error O(h^(p+1)), global order p.
-/
import HitenModel.Gen.C02
import HitenModel.Lemmas.Trees
import HitenModel.Lemmas.REReal
import Mathlib.Tactic.Ring
import Mathlib.Tactic.NormNum

namespace HitenModel.Props.C02
open HitenModel Gen.C02

/-! ### factory maps -/
theorem factory_orders : fixedOrders = [4, 6, 8] ∧ adaptiveOrders = [5, 8] := by decide
theorem declared_orders :
    fixed4_declared = 4 ∧ fixed6_declared = 6 ∧ fixed8_declared = 8 ∧ rk45_declared = 5 ∧ dop853_declared = 8 := by decide
theorem rungeKutta_dispatch :
    rungeKuttaMap = [(4, "FixedRK"), (6, "FixedRK"), (8, "FixedRK"), (45, "AdaptiveRK"), (853, "AdaptiveRK")] := by decide

/-! ### the stepping code applies the table faithfully (trace = table; Hamiltonian twin = generic) -/
theorem fixed4_step_applies_table :
    (matEqv fixed4_effA fixed4_tabA && listEqv fixed4_effB fixed4_tabB && listEqv fixed4_effC fixed4_tabC) = true := by decide +kernel
theorem fixed6_step_applies_table :
    (matEqv fixed6_effA fixed6_tabA && listEqv fixed6_effB fixed6_tabB && listEqv fixed6_effC fixed6_tabC) = true := by decide +kernel
theorem fixed8_step_applies_table :
    (matEqv fixed8_effA fixed8_tabA && listEqv fixed8_effB fixed8_tabB && listEqv fixed8_effC fixed8_tabC) = true := by decide +kernel
theorem rk45_step_applies_table :
    (matEqv rk45_effA rk45_tabA && listEqv rk45_effB rk45_tabB && listEqv rk45_effE rk45_tabE) = true := by decide +kernel
theorem dop853_step_applies_table :
    (matEqv (dop853_effA.take 13 |>.map (·.take 13)) dop853_tabA && listEqv (dop853_effB.take 13) dop853_tabB
      && listEqv (dop853_effE5.take 13) dop853_tabE5 && listEqv (dop853_effE3.take 13) dop853_tabE3) = true := by decide +kernel
theorem ham_twins_equal_generic :
    (matEqv fixed4_hamA fixed4_effA && listEqv fixed4_hamB fixed4_effB &&
     matEqv fixed6_hamA fixed6_effA && listEqv fixed6_hamB fixed6_effB &&
     matEqv fixed8_hamA fixed8_effA && listEqv fixed8_hamB fixed8_effB &&
     matEqv rk45_hamA rk45_effA && listEqv rk45_hamB rk45_effB && listEqv rk45_hamE rk45_effE &&
     matEqv dop853_hamA (dop853_effA.take 13 |>.map (·.take 13)) && listEqv dop853_hamB (dop853_effB.take 13) &&
     listEqv dop853_hamE5 (dop853_effE5.take 13) && listEqv dop853_hamE3 (dop853_effE3.take 13)) = true := by decide +kernel

/-! ### every rooted-tree order condition up to the declared order -/
theorem fixed4_order_conditions : orderConditions fixed4_effA fixed4_effB fixed4_declared 40 = true := by decide +kernel
theorem fixed6_order_conditions : orderConditions fixed6_effA fixed6_effB fixed6_declared 40 = true := by decide +kernel
theorem fixed8_order_conditions : orderConditions fixed8_effA fixed8_effB fixed8_declared 40 = true := by decide +kernel
theorem rk45_order_conditions : orderConditions rk45_effA rk45_effB rk45_declared 40 = true := by decide +kernel
theorem dop853_order_conditions : orderConditions dop853_effA dop853_effB dop853_declared 40 = true := by decide +kernel

/-- unfolded meaning of the Boolean (for *all* trees, not a sample): e.g. for the order-8 fixed method -/
theorem fixed8_all_trees (t : PTree) (ht : t.order ≤ 8) :
    (weight fixed8_effA fixed8_effB t).closeToInv t.gamma 40 = true :=
  orderConditions_spec (p := 8) fixed8_order_conditions t ht
theorem fixed6_all_trees (t : PTree) (ht : t.order ≤ 6) :
    (weight fixed6_effA fixed6_effB t).closeToInv t.gamma 40 = true :=
  orderConditions_spec (p := 6) fixed6_order_conditions t ht
theorem dop853_all_trees (t : PTree) (ht : t.order ≤ 8) :
    (weight dop853_effA dop853_effB t).closeToInv t.gamma 40 = true :=
  orderConditions_spec (p := 8) dop853_order_conditions t ht

/-! ### consistency (needed for time-dependent fields) and explicitness -/
theorem row_sums :
    (rowSums fixed4_effA fixed4_effC 40 && rowSums fixed6_effA fixed6_effC 40 && rowSums fixed8_effA fixed8_effC 40 &&
     rowSums rk45_effA rk45_effC 40 && rowSums dop853_effA dop853_effC 40) = true := by decide +kernel
theorem explicit_methods :
    (explicitTableau fixed4_effA && explicitTableau fixed6_effA && explicitTableau fixed8_effA &&
     explicitTableau rk45_effA && explicitTableau dop853_effA) = true := by decide +kernel

/-! ### embedded pairs: the error estimators have exactly the orders the step controllers assume -/
theorem rk45_low_is_order4 :
    (orderConditions rk45_effA rk45_effBlow 4 40 && failsAtOrder rk45_effA rk45_effBlow 5 40
      && listEqv rk45_effBlow (vecSub rk45_effB rk45_effE)) = true := by decide +kernel
theorem dop853_err5_is_order5 :
    (orderConditions dop853_effA (vecSub dop853_effB dop853_effE5) 5 40 &&
     failsAtOrder dop853_effA (vecSub dop853_effB dop853_effE5) 6 40) = true := by decide +kernel
theorem dop853_err3_is_order3 :
    (orderConditions dop853_effA (vecSub dop853_effB dop853_effE3) 3 40 &&
     failsAtOrder dop853_effA (vecSub dop853_effB dop853_effE3) 4 40) = true := by decide +kernel
theorem controller_exponents : rk45_errExpInv = 5 ∧ dop853_errExpInv = 8 := by decide

/-! ### dense output: continuous order conditions of the interpolants actually evaluated -/
theorem rk45_dense_order4 :
    (denseConditions rk45_effA rk45_effP rk45_Pcols 4 40 && denseEndsAt rk45_effP rk45_effB 40) = true := by decide +kernel
theorem dop853_dense_order7 :
    (denseConditions dop853_effA dop853_effP dop853_Pcols 7 30 && denseEndsAt dop853_effP dop853_effB 40) = true := by decide +kernel

/-! ### cubic Hermite interpolant of the fixed-step family (variables: 0 x, 1 h, 2 y0, 3 f0, 4 y1, 5 f1) -/
open RE in
theorem hermite_interpolates (ρ : ℕ → ℝ) :
    (ρ 0 = 0 → eval ρ hermite = ρ 2) ∧ (ρ 0 = 1 → eval ρ hermite = ρ 4) ∧
    (ρ 0 = 0 → eval ρ (D 0 hermite) = ρ 1 * ρ 3) ∧ (ρ 0 = 1 → eval ρ (D 0 hermite) = ρ 1 * ρ 5) := by
  refine ⟨?_, ?_, ?_, ?_⟩ <;> intro hx <;>
    simp only [hermite, D, eval, hx, if_true, if_false, reduceIte, Nat.reduceEqDiff, Nat.reduceSub] <;>
    (try simp) <;> ring

end HitenModel.Props.C02
