-- root of the library: every property module
import HitenModel.Props.C01
import HitenModel.Props.C02
import HitenModel.Props.C13
import HitenModel.Props.C16
