/-
  Props/C08.lean — property C08: the Lie-series normal form removes the right terms by a canonical transformation.

  Model: `Core/C08.lean` (sparse polynomials in (q1,q2,q3,p1,p2,p3) over a coefficient type `K`; the Poisson bracket,
  term selection, homological solve with its small-divisor guard, truncated Lie series with the code's bracket counts,
  both `_lie_transform` loops).  Here `K` is an arbitrary field; `coeff p m` is the coefficient of the monomial `m`
  (`Lemmas/C08Mv.lean` identifies the model with Mathlib's `MvPolynomial (Fin 6) K`, its bracket with the canonical
  Poisson bracket and `coeff` with `MvPolynomial.coeff`).  The thresholds of the code are abstract predicates:
  `small d ⇔ |d| < 1e-14` (guard of `_solve_homological_equation`), `res d ⇔ |d| < resonance_tol`, `tiny c ⇔ |c| <= tol`.
  Theorems on whole transforms assume *exact cleaning* (`tiny c → c = 0`: with `tol = 1e-30` the code removes only what
  is zero in exact arithmetic) and that a non-small divisor is non-zero; float rounding is measured by the harness.
  The model is tied to the source on every run by `harness/props/c08.py` (regenerated `Gen/C08.lean` + correspondence).
-/
import HitenModel.Lemmas.C08NF
import HitenModel.Lemmas.LieSeriesModel
import HitenModel.Lemmas.LieSeriesIter
import HitenModel.Lemmas.LieSeriesCanon
import HitenModel.Gen.C08
import Mathlib.Analysis.Complex.Norm

set_option linter.unusedSectionVars false
set_option linter.unusedSimpArgs false
set_option linter.unusedVariables false

namespace HitenModel.Props.C08
open HitenModel HitenModel.C08 MvPolynomial

section field
variable {K : Type} [Field K] [DecidableEq K]

/-! ### the homological equation -/

/-- the homological operator of the code is diagonal on monomials: `{H2, G}` has at `q^kq p^kp` the coefficient
`⟨kp - kq, eta⟩ · G[k]`, where `{·,·}` is the *code's* bracket, `H2 = Σ eta_j q_j p_j` and the divisor is the
expression `(k3-k0)*eta0 + (k4-k1)*eta1 + (k5-k2)*eta2` of `_solve_homological_equation` — all `G`, all exponents -/
theorem homological_operator_diagonal (e1 e2 e3 : K) (G : Poly K) (m : Mono) :
    coeff (poisson (H2 e1 e2 e3) G) m = divisor e1 e2 e3 m * coeff G m :=
  coeff_poisson_H2 e1 e2 e3 G m

/-- **`_solve_homological_equation` solves `{H2, G} + p_elim = 0`** on every monomial whose divisor is not guarded
out (any field, any `eta`, any `p_elim` of any degree, any guard that lets only non-zero divisors through); on a
guarded monomial `G` and hence `{H2,G}` vanish, i.e. that term of `p_elim` is left alone -/
theorem homological_solves (small : K → Bool) (hsmall : ∀ d, small d = false → d ≠ 0) (e1 e2 e3 : K) (pElim : Poly K)
    (m : Mono) :
    (small (divisor e1 e2 e3 m) = false →
        coeff (poisson (H2 e1 e2 e3) (solve small e1 e2 e3 pElim)) m + coeff pElim m = 0) ∧
    (small (divisor e1 e2 e3 m) = true →
        coeff (solve small e1 e2 e3 pElim) m = 0 ∧ coeff (poisson (H2 e1 e2 e3) (solve small e1 e2 e3 pElim)) m = 0) := by
  constructor
  · intro hs
    have hd := hsmall _ hs
    rw [coeff_poisson_H2, coeff_solve, hs]
    simp only [Bool.false_eq_true, ↓reduceIte]
    field_simp
    ring
  · intro hs
    rw [coeff_poisson_H2, coeff_solve, hs]
    simp

/-! ### term selection -/

/-- `_select_terms_for_elimination` returns exactly the part of the block with `k0 ≠ k3`; the rest (`k0 = k3`) is the
complementary part: the two add up to the block -/
theorem select_partial_spec (p : Poly K) (m : Mono) :
    coeff (select selPartial p) m = (if m.a0 ≠ m.a3 then coeff p m else 0) ∧
    coeff p m = coeff (select selPartial p) m + coeff (select (fun k => !selPartial k) p) m := by
  rw [coeff_select, coeff_select]
  by_cases h : m.a0 = m.a3 <;> simp [selPartial, h]

/-- `_select_nonresonant_terms` returns exactly the monomials whose resonance value `⟨kp-kq, eta⟩` is not small -/
theorem select_full_spec (res : K → Bool) (e1 e2 e3 : K) (p : Poly K) (m : Mono) :
    coeff (select (selFull res e1 e2 e3) p) m = if res (divisor e1 e2 e3 m) = true then 0 else coeff p m := by
  rw [coeff_select]
  by_cases h : res (divisor e1 e2 e3 m) = true <;> simp [selFull, h]

/-! ### degree bookkeeping -/

/-- every term of `{p, q}` is produced by a term of degree `d` of `p` and a term of degree `n` of `q` and has degree
`d + n - 2` -/
theorem degree_bookkeeping (p q : Poly K) (t : Mono × K) (h : t ∈ poisson p q) :
    ∃ u ∈ p, ∃ v ∈ q, t.1.deg + 2 = u.1.deg + v.1.deg :=
  mem_poisson h

/-- the truncated Lie series with a generator homogeneous of degree `n ≥ 3`, applied to a polynomial without constant
and linear part: (i) leaves every coefficient of degree `< n` untouched, (ii) turns the block of degree `n` into
`H_n + {H_2, G_n}` (only the first bracket of the quadratic part can reach degree `n`), (iii) creates nothing of degree
`< 2` or `> N` — for every bracket count `Kc ≥ 1`, in particular the code's -/
theorem lie_series_blocks (tiny : K → Bool) (htiny : ∀ c, tiny c = true → c = 0) (N n Kc : Nat) (G H : Poly K)
    (hG : ∀ v ∈ G, v.1.deg = n) (hn : 3 ≤ n) (hN : n ≤ N) (hK : 1 ≤ Kc) (hH : DegBounds N H) :
    (∀ m : Mono, m.deg < n → coeff (lieSeries tiny N Kc G H) m = coeff H m) ∧
    (∀ m : Mono, m.deg = n → coeff (lieSeries tiny N Kc G H) m = coeff H m + coeff (poisson (block 2 H) G) m) ∧
    DegBounds N (lieSeries tiny N Kc G H) :=
  ⟨fun _ hm => coeff_lieSeries_lt htiny hG (by omega) hH hm,
   fun _ hm => coeff_lieSeries_eq htiny hG hn hH hK hm hN,
   lieSeries_degBounds hG (by omega) hH⟩

/-- **the bracket counts the current code takes are sufficient** (table regenerated from the source on every run by
executing `_apply_poly_transform` / `_apply_coord_transform` with a counting `_factorial`, all
`3 ≤ deg_G ≤ N_max ≤ 10`): after `K` brackets of a polynomial of degree `≥ 2` (Hamiltonian) resp. `≥ 1` (coordinate)
the next bracket lies beyond degree `N_max`, i.e. is truncated away entirely -/
theorem K_observed_sufficient :
    ∀ r ∈ Gen.C08.kTable, r.1 < 2 + r.2.2.1 * (r.2.1 - 2) + (r.2.1 - 2) ∧ r.1 < 1 + r.2.2.2 * (r.2.1 - 2) + (r.2.1 - 2) := by
  decide

/-- the same for the model's formulas `K = max(N, (N-n)//(n-2)+1)`, `K_max = max(N, (N-1)//(n-2)+1)` — all `N`, `n ≥ 3` -/
theorem K_sufficient (N n : Nat) (hn : 3 ≤ n) :
    N < 2 + Kpoly N n * (n - 2) + (n - 2) ∧ N < 1 + Kcoord N n * (n - 2) + (n - 2) := by
  unfold Kpoly Kcoord
  rw [if_pos (by omega), if_pos (by omega)]
  have h1 : N ≤ max N ((N - n) / (n - 2) + 1) * (n - 2) :=
    le_trans (Nat.le_max_left _ _) (Nat.le_mul_of_pos_right _ (by omega))
  have h2 : N ≤ max N ((N - 1) / (n - 2) + 1) * (n - 2) :=
    le_trans (Nat.le_max_left _ _) (Nat.le_mul_of_pos_right _ (by omega))
  omega

/-- beyond the degree bound the series has nothing left: once every term of `B` has degree `> N - (n-2)`, all further
terms `(1/k!) B_k` are empty -/
theorem lie_series_tail_empty (tiny : K → Bool) (N n : Nat) (G : Poly K) (hG : ∀ v ∈ G, v.1.deg = n) (hn : 2 ≤ n)
    (Kc k : Nat) (B : Poly K) (hB : ∀ u ∈ B, N < u.1.deg + (n - 2)) : lieTerms tiny N G Kc k B = [] := by
  induction Kc generalizing k B with
  | zero => rfl
  | succ Kc ih =>
    have hnil : clean tiny (trunc N (poisson B G)) = [] := by
      apply List.eq_nil_iff_forall_not_mem.mpr
      intro u hu
      have := mem_bracketStep (tiny := tiny) (N := N) (d := N + 1 - (n - 2)) hG hn (B := B)
        (fun w hw => by have := hB w hw; omega) u hu
      omega
    simp only [lieTerms, hnil]
    rw [ih (k + 1) [] (by simp)]
    simp [scale]

/-- **any sufficient bracket count gives the same series**: if the terms of `X` have degree `≥ d` and `Kc` brackets
already exhaust the degrees `≤ N` (`N < d + Kc (n-2) + (n-2)`), taking `extra` more brackets changes nothing.  With
`K_observed_sufficient` / `K_sufficient`: the code's and the model's counts produce the complete truncated series. -/
theorem lie_series_K_independent (tiny : K → Bool) (N n : Nat) (G : Poly K) (hG : ∀ v ∈ G, v.1.deg = n) (hn : 2 ≤ n)
    (Kc extra d : Nat) (X : Poly K) (hX : ∀ u ∈ X, d ≤ u.1.deg) (hK : N < d + Kc * (n - 2) + (n - 2)) :
    lieSeries tiny N (Kc + extra) G X = lieSeries tiny N Kc G X := by
  have key : ∀ (Kc k d : Nat) (B : Poly K), (∀ u ∈ B, d ≤ u.1.deg) → N < d + Kc * (n - 2) + (n - 2) →
      lieTerms tiny N G (Kc + extra) k B = lieTerms tiny N G Kc k B := by
    intro Kc
    induction Kc with
    | zero =>
      intro k d B hB hK
      rw [Nat.zero_add, lie_series_tail_empty tiny N n G hG hn extra k B (fun u hu => by have := hB u hu; omega)]
      rfl
    | succ Kc ih =>
      intro k d B hB hK
      have e : Kc + 1 + extra = (Kc + extra) + 1 := by omega
      rw [e]
      simp only [lieTerms]
      rw [ih (k + 1) (d + (n - 2)) _ (fun u hu => (mem_bracketStep (tiny := tiny) (N := N) hG hn hB u hu).1)
        (by rw [Nat.add_mul] at hK; omega)]
  unfold lieSeries
  rw [key Kc 0 d X hX hK]

/-- `ad_G = {·, G}` of the code is a **derivation** of the polynomial algebra (Leibniz rule), stated in Mathlib's
`MvPolynomial (Fin 6) K` through the denotation `toMv` (`toMv (mul p q) = toMv p * toMv q`).  Together with
`degree_bookkeeping` (`ad_G` raises degrees by `deg G - 2 ≥ 1`, hence is nilpotent modulo degree `> N`) and
`lie_series_K_independent` (the Hamiltonian and the six coordinates are transformed by the *same* complete truncated
series `Σ ad_G^k / k!`) these are the hypotheses of the textbook theorem "the exponential of a nilpotent derivation is an
algebra automorphism" that gives `H_new = H_old ∘ Φ` modulo degree `N+1`.  That theorem IS formalised further down (section
`LieSeriesProps`: `transform_is_composition` for one generator, `normal_form_is_composition_with_expansion` for the whole loop of
`_lie_transform` against the map `_lie_expansion` builds).  Canonicity (Jacobi) of Φ and `forward ∘ inverse = id` are **not** formalised:
that part of sentence 2 is checked coefficient-wise / by fitted exponents on the real code by the harness. -/
theorem ad_is_derivation_partial (p q g : Poly K) :
    toMv (poisson (mul p q) g) = toMv p * toMv (poisson q g) + toMv (poisson p g) * toMv q ∧
    toMv (poisson (p ++ q) g) = toMv (poisson p g) + toMv (poisson q g) ∧
    toMv (poisson p g) = - toMv (poisson g p) := by
  simp only [toMv_poisson, toMv_mul, toMv_append]
  exact ⟨PB_mul_left _ _ _, PB_add_left _ _ _, PB_antisymm _ _⟩

/-! ### the normal forms -/

/-- **loop invariant and result of `_lie_transform`** (both variants; `c.sel` is the selection rule).  For every
degree `N`, every `eta`, every input `H` without constant/linear part whose quadratic part is `Σ eta_j q_j p_j`:
the transformed Hamiltonian (i) contains no selected monomial of degree `3..N` whose divisor passed the guard,
(ii) has the same quadratic part, (iii) still has no constant/linear part and nothing beyond degree `N`. -/
theorem normal_form_invariant (c : Cfg K) (htiny : ∀ x, c.tiny x = true → x = 0) (hsmall : ∀ d, c.small d = false → d ≠ 0)
    (H : Poly K) (hdeg : DegBounds c.N H) (hquad : QuadIs c.e1 c.e2 c.e3 H) :
    NormalUpTo c (lieTransform c H).trans c.N ∧ QuadIs c.e1 c.e2 c.e3 (lieTransform c H).trans ∧
      DegBounds c.N (lieTransform c H).trans := by
  by_cases hN : 2 ≤ c.N
  · obtain ⟨d, q, nf, _⟩ := lieLoop_invariant c htiny hsmall ⟨H, [], []⟩ hdeg hquad (c.N - 2) (by omega)
    have e : 2 + (c.N - 2) = c.N := by omega
    rw [e] at nf
    exact ⟨nf, q, d⟩
  · have e : c.N - 2 = 0 := by omega
    have e2 : (lieTransform c H).trans = H := by simp [lieTransform, lieLoop, e]
    rw [e2]
    exact ⟨fun m h3 hle => by omega, hquad, hdeg⟩

/-- **partial normal form** (`center/_lie.py`): after `_lie_transform` no monomial of degree `3..N` with `k0 ≠ k3`
and unguarded divisor survives — all `N`, all `eta`, all admissible inputs -/
theorem partial_normal_form_invariant (c : Cfg K) (hsel : c.sel = selPartial) (htiny : ∀ x, c.tiny x = true → x = 0)
    (hsmall : ∀ d, c.small d = false → d ≠ 0) (H : Poly K) (hdeg : DegBounds c.N H) (hquad : QuadIs c.e1 c.e2 c.e3 H)
    (m : Mono) (h3 : 3 ≤ m.deg) (hN : m.deg ≤ c.N) (hk : m.a0 ≠ m.a3) (hs : c.small (divisor c.e1 c.e2 c.e3 m) = false) :
    coeff (lieTransform c H).trans m = 0 :=
  (normal_form_invariant c htiny hsmall H hdeg hquad).1 m h3 hN (by simp [hsel, selPartial, hk]) hs

/-- **full normal form** (`normal/_lie.py`): only resonant monomials survive in degrees `3..N` (resonant = the code's
test `|⟨kp-kq, eta⟩| < resonance_tol`), provided the guard threshold does not exceed the resonance tolerance
(`small d → res d`; for the shipped constants see `guard_below_default_resonance_tol`) -/
theorem full_normal_form_invariant (c : Cfg K) (res : K → Bool) (hsel : c.sel = selFull res c.e1 c.e2 c.e3)
    (hres : ∀ d, c.small d = true → res d = true) (htiny : ∀ x, c.tiny x = true → x = 0)
    (hsmall : ∀ d, c.small d = false → d ≠ 0) (H : Poly K) (hdeg : DegBounds c.N H) (hquad : QuadIs c.e1 c.e2 c.e3 H)
    (m : Mono) (h3 : 3 ≤ m.deg) (hN : m.deg ≤ c.N) (hm : coeff (lieTransform c H).trans m ≠ 0) :
    res (divisor c.e1 c.e2 c.e3 m) = true := by
  by_contra hr
  have hr' : res (divisor c.e1 c.e2 c.e3 m) = false := by simpa using hr
  have hs : c.small (divisor c.e1 c.e2 c.e3 m) = false := by
    by_contra h
    have := hres _ (by simpa using h)
    rw [hr'] at this; exact Bool.noConfusion this
  exact hm ((normal_form_invariant c htiny hsmall H hdeg hquad).1 m h3 hN (by simp [hsel, selFull, hr']) hs)

/-! ### consequences of `k0 = k3` in every monomial -/

/-- **the centre manifold is invariant and `q1 p1` is a formal integral**: if every monomial of `H` has `k0 = k3`, then
`∂H/∂p1` and `∂H/∂q1` vanish at every point with `q1 = p1 = 0` (so `q1' = p1' = 0` there), and `{q1 p1, H} = 0` -/
theorem cm_invariant (H : Poly K) (hgood : ∀ m : Mono, coeff H m ≠ 0 → m.a0 = m.a3) :
    (∀ z : ℕ → K, z 0 = 0 → z 3 = 0 → evalPoly z (diff 3 H) = 0 ∧ evalPoly z (diff 0 H) = 0) ∧
    (∀ m : Mono, coeff (poisson (H2 1 0 0) H) m = 0) := by
  have hsupp : ∀ s ∈ (toMv H).support, s 0 = s 3 := by
    intro s hs
    have hc := MvPolynomial.mem_support_iff.mp hs
    rw [← Mono.toFinsupp_ofFun s, coeff_toMv] at hc
    exact hgood _ hc
  constructor
  · intro z h0 h3
    have e3 := toMv_diff (K := K) 3 H
    have e0 := toMv_diff (K := K) 0 H
    have v3 : ((3 : Fin 6) : ℕ) = 3 := rfl
    rw [v3] at e3
    simp only [Fin.val_zero] at e0
    rw [evalPoly_toMv, evalPoly_toMv, e3, e0]
    exact ⟨eval_pderiv_eq_zero _ _ 3 0 (by decide) (by simpa using h0) (fun s hs => (hsupp s hs).symm),
           eval_pderiv_eq_zero _ _ 0 3 (by decide) (by simpa using h3) hsupp⟩
  · intro m
    rw [coeff_poisson_H2]
    by_cases hc : coeff H m = 0
    · rw [hc, mul_zero]
    · have := hgood m hc
      simp [divisor, this]

/-- the partially normalised Hamiltonian has `k0 = k3` in *every* monomial when the guard never fires on a selected
monomial (see `partial_divisor_bounded_below`), hence `cm_invariant` applies to the output of `_lie_transform` -/
theorem partial_normal_form_cm_invariant (c : Cfg K) (hsel : c.sel = selPartial) (htiny : ∀ x, c.tiny x = true → x = 0)
    (hsmall : ∀ d, c.small d = false → d ≠ 0) (hng : ∀ m : Mono, m.a0 ≠ m.a3 → c.small (divisor c.e1 c.e2 c.e3 m) = false)
    (H : Poly K) (hdeg : DegBounds c.N H) (hquad : QuadIs c.e1 c.e2 c.e3 H) :
    (∀ m : Mono, coeff (lieTransform c H).trans m ≠ 0 → m.a0 = m.a3) ∧
    (∀ z : ℕ → K, z 0 = 0 → z 3 = 0 →
      evalPoly z (diff 3 (lieTransform c H).trans) = 0 ∧ evalPoly z (diff 0 (lieTransform c H).trans) = 0) ∧
    (∀ m : Mono, coeff (poisson (H2 1 0 0) (lieTransform c H).trans) m = 0) := by
  obtain ⟨nf, q, d⟩ := normal_form_invariant c htiny hsmall H hdeg hquad
  have hgood : ∀ m : Mono, coeff (lieTransform c H).trans m ≠ 0 → m.a0 = m.a3 := by
    intro m hm
    by_contra hk
    have hmem : ∃ t ∈ (lieTransform c H).trans, t.1 = m := by
      by_contra hne
      exact hm (coeff_eq_zero_of_not_mem fun t ht e => hne ⟨t, ht, e⟩)
    obtain ⟨t, ht, rfl⟩ := hmem
    have hb := d t ht
    by_cases h2 : t.1.deg = 2
    · rw [q _ h2] at hm
      have : ∃ u ∈ H2 c.e1 c.e2 c.e3, u.1 = t.1 := by
        by_contra hne
        exact hm (coeff_eq_zero_of_not_mem fun u hu e => hne ⟨u, hu, e⟩)
      obtain ⟨u, hu, e⟩ := this
      simp only [H2, List.mem_cons, List.not_mem_nil, or_false] at hu
      rcases hu with h | h | h <;> (rw [h] at e; rw [← e] at hk; exact hk rfl)
    · exact hm (nf t.1 (by omega) hb.2 (by simp [hsel, selPartial, hk]) (hng _ hk))
  exact ⟨hgood, (cm_invariant _ hgood).1, (cm_invariant _ hgood).2⟩

/-- `_zero_q1p1` keeps exactly the monomials that contain neither `q1` nor `p1` … -/
theorem zero_q1p1_spec (tiny : K → Bool) (htiny : ∀ c, tiny c = true → c = 0) (p : Poly K) (m : Mono) :
    coeff (zeroQ1P1 tiny p) m = if m.a0 = 0 ∧ m.a3 = 0 then coeff p m else 0 := by
  have e : zeroQ1P1 tiny p = (clean tiny p).filter (fun t => (fun k : Mono => k.a0 == 0 && k.a3 == 0) t.1) := by
    unfold zeroQ1P1 clean
    rw [List.filter_filter]
    congr 1
    funext t
    cases tiny t.2 <;> simp
  rw [e, coeff_filter_mono (fun k : Mono => k.a0 == 0 && k.a3 == 0) (clean tiny p) m, coeff_clean htiny]
  by_cases h0 : m.a0 = 0 <;> by_cases h3 : m.a3 = 0 <;> simp [h0, h3]

/-- … and therefore does not change the value of an expansion at any point of the centre manifold `q1 = p1 = 0`
(`restrict=True` expansions agree there with the unrestricted ones) -/
theorem zero_q1p1_on_cm (tiny : K → Bool) (htiny : ∀ c, tiny c = true → c = 0) (p : Poly K) (z : ℕ → K)
    (h0 : z 0 = 0) (h3 : z 3 = 0) : evalPoly z (zeroQ1P1 tiny p) = evalPoly z p := by
  rw [evalPoly_toMv, evalPoly_toMv]
  apply eval_eq_of_coeff_eq_on_cm _ _ _ (by simpa using h0) (by simpa using h3)
  intro s e0 e3
  rw [← Mono.toFinsupp_ofFun s, coeff_toMv, coeff_toMv, zero_q1p1_spec tiny htiny]
  have : (Mono.ofFun s).a0 = 0 ∧ (Mono.ofFun s).a3 = 0 := ⟨e0, e3⟩
  rw [if_pos this]

end field

/-! ### the shipped constants -/

/-- in the partial normal form the guard never fires: with `eta = (λ, iω₁, iω₂)` (λ, ω real) the divisor of a monomial
with `k0 ≠ k3` has modulus `≥ |λ|` -/
theorem partial_divisor_bounded_below (lam om1 om2 : ℝ) (m : Mono) (hk : m.a0 ≠ m.a3) :
    open Classical in
    |lam| ≤ ‖divisor (lam : ℂ) (Complex.I * om1) (Complex.I * om2) m‖ := by
  classical
  have hre : (divisor (lam : ℂ) (Complex.I * om1) (Complex.I * om2) m).re = ((m.a3 : ℝ) - (m.a0 : ℝ)) * lam := by
    simp [divisor]
  have h1 : (1 : ℝ) ≤ |((m.a3 : ℝ) - (m.a0 : ℝ))| := by
    have : (1 : ℤ) ≤ |((m.a3 : ℤ) - (m.a0 : ℤ))| := by
      apply Int.one_le_abs; omega
    have h2 : ((|((m.a3 : ℤ) - (m.a0 : ℤ))| : ℤ) : ℝ) = |((m.a3 : ℝ) - (m.a0 : ℝ))| := by push_cast; rfl
    rw [← h2]; exact_mod_cast this
  calc |lam| = 1 * |lam| := (one_mul _).symm
    _ ≤ |((m.a3 : ℝ) - (m.a0 : ℝ))| * |lam| := mul_le_mul_of_nonneg_right h1 (abs_nonneg _)
    _ = |((m.a3 : ℝ) - (m.a0 : ℝ)) * lam| := (abs_mul _ _).symm
    _ = |(divisor (lam : ℂ) (Complex.I * om1) (Complex.I * om2) m).re| := by rw [hre]
    _ ≤ _ := Complex.abs_re_le_norm _

/-- the guard threshold located in the compiled `_solve_homological_equation` does not exceed the default
`resonance_tol` of the full normal form: a term selected as non-resonant is never skipped by the guard -/
theorem guard_below_default_resonance_tol :
    Gen.C08.guardTol ≤ Gen.C08.resonanceTolDefault ∧ 0 < Gen.C08.guardTol ∧
    (∀ d : GQ, GQ.absLt Gen.C08.guardTol d = true → GQ.absLt Gen.C08.resonanceTolDefault d = true) ∧
    (∀ d : GQ, GQ.absLt Gen.C08.guardTol d = false → d ≠ ⟨0, 0⟩) := by
  have h1 : Gen.C08.guardTol ≤ Gen.C08.resonanceTolDefault := by
    unfold Gen.C08.guardTol Gen.C08.resonanceTolDefault; norm_num
  have h0 : 0 < Gen.C08.guardTol := by unfold Gen.C08.guardTol; norm_num
  refine ⟨h1, h0, ?_, ?_⟩
  · intro d hd
    simp only [GQ.absLt, decide_eq_true_eq] at hd ⊢
    exact lt_of_lt_of_le hd (mul_self_le_mul_self h0.le h1)
  · intro d hd e
    subst e
    simp only [GQ.absLt, GQ.normSq, decide_eq_false_iff_not, not_lt] at hd
    have : 0 < Gen.C08.guardTol * Gen.C08.guardTol := mul_pos h0 h0
    simp at hd
    linarith

/-! ### non-vacuity -/

/-- the hypotheses of the normal-form theorems are satisfiable by a non-trivial Hamiltonian (here over ℚ:
`2 q1p1 + 3 q2p2 + 5 q3p3 + q1²p1 + 7 q1 q2 p1`, with one monomial to eliminate and one to keep) -/
example : DegBounds 4 (H2 (2 : ℚ) 3 5 ++ [(⟨2, 0, 0, 1, 0, 0⟩, 1), (⟨1, 1, 0, 1, 0, 0⟩, 7)]) ∧
    QuadIs (2 : ℚ) 3 5 (H2 (2 : ℚ) 3 5 ++ [(⟨2, 0, 0, 1, 0, 0⟩, 1), (⟨1, 1, 0, 1, 0, 0⟩, 7)]) ∧
    selPartial ⟨2, 0, 0, 1, 0, 0⟩ = true ∧ selPartial ⟨1, 1, 0, 1, 0, 0⟩ = false ∧
    divisor (2 : ℚ) 3 5 ⟨2, 0, 0, 1, 0, 0⟩ ≠ 0 := by
  refine ⟨?_, ?_, rfl, rfl, ?_⟩
  · intro t ht
    simp only [H2, List.cons_append, List.nil_append, List.mem_cons, List.not_mem_nil, or_false] at ht
    rcases ht with h | h | h | h | h <;> (rw [h]; decide)
  · intro m hm
    rw [coeff_append]
    have : coeff ([(⟨2, 0, 0, 1, 0, 0⟩, 1), (⟨1, 1, 0, 1, 0, 0⟩, 7)] : Poly ℚ) m = 0 := by
      apply coeff_eq_zero_of_not_mem
      intro t ht e
      simp only [List.mem_cons, List.not_mem_nil, or_false] at ht
      rcases ht with h | h <;> (rw [h] at e; rw [← e] at hm; revert hm; decide)
    rw [this, add_zero]
  · norm_num [divisor]

/-- a guard of the shape used by the code satisfies the guard hypothesis; exact cleaning is `tiny c ⇔ c = 0` -/
example : (∀ d : ℚ, (decide (|d| < 1 / 100000000000000)) = false → d ≠ 0) ∧ (∀ c : ℚ, decide (c = 0) = true → c = 0) := by
  constructor
  · intro d hd e
    subst e
    simp at hd
  · intro c hc; simpa using hc

/-! ### sentence 2: the transformed Hamiltonian is the original one composed with the coordinate change -/

section LieSeriesProps
variable {K : Type} [Field K] [DecidableEq K] [CharZero K]

/-- **transform_is_composition** (one generator; `Lemmas/LieSeries.lean`, `Lemmas/LieSeriesModel.lean`): on the executable model of
`_apply_poly_transform` / `_apply_coord_transform` — the SAME function `lieSeries`, tied to both routines by the exact correspondence — with
exact cleaning, a generator without terms of degree `< 3` and at least `N` brackets (the code takes `K = max(N, …)`, `K_observed_sufficient`),
every coefficient of degree `≤ N` of the transformed Hamiltonian is the coefficient of `H_old ∘ Φ`, `Φ_i = lieSeries(x_i)`.  A normal form
applies this for the generators of degree 3, …, N in turn. -/
theorem transform_is_composition {tiny : K → Bool} (htiny : ∀ c, tiny c = true → c = 0) (N Kc : Nat) (hK : N ≤ Kc)
    (G H : Poly K) (hG : ∀ v ∈ G, 3 ≤ v.1.deg) (m : Mono) (hm : m.deg ≤ N) :
    coeff (lieSeries tiny N Kc G H) m =
      MvPolynomial.coeff m.toFinsupp
        (MvPolynomial.aeval (fun i => toMv (lieSeries tiny N Kc G (HitenModel.LieSeries.coordPoly i))) (toMv H)) :=
  HitenModel.LieSeries.model_lie_series_is_composition_coeff htiny N Kc hK G H hG m hm

/-- **lie_series_ring_hom_mod_degree**: the underlying algebraic fact — modulo terms of degree `> N` the Lie series truncated after `N`
brackets is multiplicative (Leibniz rule for the iterated bracket; the bracket with a generator of order `≥ 3` raises the order) -/
theorem lie_series_ring_hom_mod_degree (N : Nat) (G f g : MvPolynomial (Fin 6) K) (hG : HitenModel.LieSeries.Ord 3 G)
    (s : Fin 6 →₀ ℕ) (hs : s.degree ≤ N) :
    MvPolynomial.coeff s (HitenModel.LieSeries.lieSum N G (f * g)) =
      MvPolynomial.coeff s (HitenModel.LieSeries.lieSum N G f * HitenModel.LieSeries.lieSum N G g) :=
  HitenModel.LieSeries.lie_series_multiplicative N G f g hG s hs

/-- non-vacuity: a cubic generator and `K = N = 4` satisfy the hypotheses -/
example : (∀ v ∈ ([(⟨2, 0, 0, 1, 0, 0⟩, (1 : ℚ)), (⟨0, 1, 1, 0, 1, 0⟩, 3)] : Poly ℚ), 3 ≤ v.1.deg) ∧ (4 : Nat) ≤ 4 := by
  constructor
  · intro v hv
    simp only [List.mem_cons, List.not_mem_nil, or_false] at hv
    rcases hv with rfl | rfl <;> decide
  · decide

/-! #### the whole loop (`Lemmas/LieSeriesIter.lean`)

A generator list is `gs : List (ℕ × Poly K)` — (bracket count, generator), applied head first.  `iterSeries tiny N gs H0` is the loop
`H := lieSeries tiny N K g H` over the list; `compMap tiny N gs` is the composed coordinate map `Ψ_[] i = x_i`,
`Ψ_(gs ++ [g]) i = aeval Φ_g (Ψ_gs i)`, `Φ_g j = toMv (lieSeries tiny N K g x_j)`; as point maps `Ψ_[g1,…,gk] = Φ_{g1} ∘ … ∘ Φ_{gk}`. -/

open HitenModel.LieSeries in
/-- **iterated_transform_is_composition** (any number of generators): for generators without terms of degree `< 3`, each applied with at
least `N` brackets, exact cleaning, every coefficient of degree `≤ N` of the result of the whole loop is the coefficient of
`H_0 ∘ Ψ_gs`, the ORIGINAL polynomial composed with the composed coordinate map. -/
theorem iterated_transform_is_composition {tiny : K → Bool} (htiny : ∀ c, tiny c = true → c = 0) (N : Nat)
    (gs : List (Nat × Poly K)) (hK : ∀ kg ∈ gs, N ≤ kg.1) (hG : ∀ kg ∈ gs, ∀ v ∈ kg.2, 3 ≤ v.1.deg) (H0 : Poly K)
    (m : Mono) (hm : m.deg ≤ N) :
    coeff (iterSeries tiny N gs H0) m =
      MvPolynomial.coeff m.toFinsupp (MvPolynomial.aeval (compMap tiny N gs) (toMv H0)) :=
  iterated_lie_series_is_composition_coeff htiny N gs hK hG H0 m hm

open HitenModel.LieSeries in
/-- **iterated_coordinates_are_the_composed_map**: the same loop started from the coordinate polynomial `x_i` (what `_lie_expansion` does
with the identity coordinates) produces, in every coefficient of degree `≤ N`, the `i`-th component of the SAME composed map `Ψ_gs`. -/
theorem iterated_coordinates_are_the_composed_map {tiny : K → Bool} (htiny : ∀ c, tiny c = true → c = 0) (N : Nat)
    (gs : List (Nat × Poly K)) (hK : ∀ kg ∈ gs, N ≤ kg.1) (hG : ∀ kg ∈ gs, ∀ v ∈ kg.2, 3 ≤ v.1.deg) (i : Fin 6)
    (m : Mono) (hm : m.deg ≤ N) :
    coeff (iterSeries tiny N gs (coordPoly i)) m = MvPolynomial.coeff m.toFinsupp (compMap tiny N gs i) := by
  rw [← coeff_toMv]
  exact (iterated_coords_cong htiny N gs (fun kg h => Or.inl (hK kg h)) hG i).coeff_eq _ (by rw [toFinsupp_degree]; exact hm)

open HitenModel.LieSeries in
/-- **normal_form_loop_is_iteration**: the loop of `_lie_transform` IS such an iteration (identities of term lists): the returned
Hamiltonian is `iterSeries` over the generators `loopGens` of the passes that were not skipped, the returned generator is the cleaned
concatenation of these generators; each of them is homogeneous of its pass degree `n`, `3 ≤ n ≤ N`, and is applied with
`Kpoly N n ≥ N` brackets. -/
theorem normal_form_loop_is_iteration (c : Cfg K) (H : Poly K) :
    (lieTransform c H).trans = iterSeries c.tiny c.N (loopGens c ⟨H, [], []⟩ (c.N - 2)) H ∧
    (lieTransform c H).G = clean c.tiny ((loopGens c ⟨H, [], []⟩ (c.N - 2)).map Prod.snd).flatten ∧
    ∀ kg ∈ loopGens c ⟨H, [], []⟩ (c.N - 2),
      ∃ n, 3 ≤ n ∧ n ≤ c.N ∧ kg.1 = Kpoly c.N n ∧ c.N ≤ kg.1 ∧ ∀ v ∈ kg.2, v.1.deg = n := by
  obtain ⟨h1, h2⟩ := lieLoop_trans_G c ⟨H, [], []⟩ (c.N - 2)
  refine ⟨h1, ?_, fun kg h => ?_⟩
  · show clean c.tiny (lieLoop c ⟨H, [], []⟩ (c.N - 2)).G = _
    rw [h2]; rfl
  · obtain ⟨n, h3, hlt, hk, hd⟩ := loopGens_spec h
    exact ⟨n, h3, by omega, hk, by rw [hk]; exact Kpoly_ge h3, hd⟩

open HitenModel.LieSeries in
/-- **normal_form_is_composition**: for every configuration with exact cleaning, every degree `N` and EVERY input polynomial, each
coefficient of degree `≤ N` of the Hamiltonian returned by `_lie_transform` is the coefficient of `H_in ∘ Ψ`, `Ψ` the composed coordinate
map of the generators the loop produced. -/
theorem normal_form_is_composition (c : Cfg K) (htiny : ∀ x, c.tiny x = true → x = 0) (H : Poly K) (m : Mono) (hm : m.deg ≤ c.N) :
    coeff (lieTransform c H).trans m =
      MvPolynomial.coeff m.toFinsupp
        (MvPolynomial.aeval (compMap c.tiny c.N (loopGens c ⟨H, [], []⟩ (c.N - 2))) (toMv H)) := by
  rw [← coeff_toMv]
  exact (lieLoop_is_composition c htiny ⟨H, [], []⟩ (c.N - 2)).coeff_eq _ (by rw [toFinsupp_degree]; exact hm)

open HitenModel.LieSeries in
/-- **lie_expansion_is_composed_map**: the `i`-th polynomial returned by `_lie_expansion` (unrestricted; forward `n = 3..N` or inverse
`n = N..3`; any `sign`; any `poly_G_total`) is, in every coefficient of degree `≤ N`, the `i`-th component of the composed coordinate map
of its generator list `expansionGens` (`G_n = sign · block n Gtot`, empty blocks skipped, bracket counts `Kcoord`) — exact cleaning is the
only hypothesis.  See `LieSeries.lieExpansion_is_psiFn` for the `tiny`-free description `Φ_{n1} ∘ … ∘ Φ_{nk}`, `Φ_n = exp(ad_{G_n})`. -/
theorem lie_expansion_is_composed_map {tiny : K → Bool} (htiny : ∀ c, tiny c = true → c = 0) (N : Nat) (Gtot : Poly K)
    (inverse : Bool) (sign : K) (i : Fin 6) (m : Mono) (hm : m.deg ≤ N) :
    coeff ((lieExpansion tiny N Gtot inverse sign false).getD i.val []) m =
      MvPolynomial.coeff m.toFinsupp (compMap tiny N (expansionGens N Gtot inverse sign) i) := by
  rw [← coeff_toMv, lieExpansion_getD]
  exact (iterated_coords_cong htiny N _ expansionGens_K expansionGens_deg i).coeff_eq _ (by rw [toFinsupp_degree]; exact hm)

open HitenModel.LieSeries in
/-- **normal_form_is_composition_with_expansion** — sentence 2 on the model of the whole computation: for every configuration with exact
cleaning, every `N` and every input `H`, each coefficient of degree `≤ N` of the Hamiltonian returned by `_lie_transform` is the
coefficient of `H ∘ Ψ`, where `Ψ_i` is the `i`-th polynomial `_lie_expansion` (forward, `sign = +1`, unrestricted) computes from the
generator `poly_G_total` RETURNED by `_lie_transform`: "the transformed Hamiltonian equals the old Hamiltonian composed with the
generated canonical transformation".  (Canonicity of `Ψ`: `normal_form_transformation_is_canonical`; `inverse ∘ forward = id`:
`normal_form_expansions_mutually_inverse`, both below.  Not covered: float rounding, `restrict=True`.) -/
theorem normal_form_is_composition_with_expansion (c : Cfg K) (htiny : ∀ x, c.tiny x = true → x = 0) (H : Poly K)
    (m : Mono) (hm : m.deg ≤ c.N) :
    coeff (lieTransform c H).trans m =
      MvPolynomial.coeff m.toFinsupp
        (MvPolynomial.aeval
          (fun i : Fin 6 => toMv ((lieExpansion c.tiny c.N (lieTransform c H).G false 1 false).getD i.val [])) (toMv H)) := by
  rw [← coeff_toMv]
  exact (lieTransform_is_composition_with_expansion c htiny H).coeff_eq _ (by rw [toFinsupp_degree]; exact hm)

/-- non-vacuity: two explicit generators of degree 3 and 4 over ℚ, `N = 4`, four brackets each, satisfy the hypotheses of
`iterated_transform_is_composition`; exact cleaning is `tiny c ⇔ c = 0` -/
example :
    let gs : List (Nat × Poly ℚ) :=
      [(4, [(⟨2, 0, 0, 1, 0, 0⟩, 1), (⟨0, 1, 1, 0, 1, 0⟩, 3)]), (4, [(⟨2, 0, 0, 2, 0, 0⟩, 5), (⟨1, 1, 1, 0, 0, 1⟩, -2)])]
    (∀ kg ∈ gs, 4 ≤ kg.1) ∧ (∀ kg ∈ gs, ∀ v ∈ kg.2, 3 ≤ v.1.deg) ∧ (∀ c : ℚ, decide (c = 0) = true → c = 0) := by
  intro gs
  refine ⟨?_, ?_, fun c hc => by simpa using hc⟩
  · intro kg hkg
    simp only [gs, List.mem_cons, List.not_mem_nil, or_false] at hkg
    rcases hkg with rfl | rfl <;> decide
  · intro kg hkg v hv
    simp only [gs, List.mem_cons, List.not_mem_nil, or_false] at hkg
    rcases hkg with rfl | rfl <;>
      (simp only [List.mem_cons, List.not_mem_nil, or_false] at hv; rcases hv with rfl | rfl <;> decide)

/-! #### inverse expansion and canonicity (`Lemmas/LieSeriesCanon.lean`)

Second half of the property sentence: "… composed with the generated **canonical** transformation, and the forward and inverse coordinate
expansions are mutually inverse up to the truncation order". -/

open HitenModel.LieSeries in
/-- **lie_series_one_parameter_group**: for a generator without terms of degree `< 3`, `exp(a·ad_G) exp(b·ad_G) f` and `exp((a+b)·ad_G) f`
(all series truncated after `N` brackets) agree in every coefficient of degree `≤ N` (binomial theorem + order filtration). -/
theorem lie_series_one_parameter_group (N : Nat) (a b : K) (G f : MvPolynomial (Fin 6) K) (hG : Ord 3 G)
    (s : Fin 6 →₀ ℕ) (hs : s.degree ≤ N) :
    MvPolynomial.coeff s (lieSum N (a • G) (lieSum N (b • G) f)) = MvPolynomial.coeff s (lieSum N ((a + b) • G) f) :=
  (lieSum_smul_add_cong N a b hG f).coeff_eq s hs

open HitenModel.LieSeries in
/-- **lie_series_inverse** (one generator): the truncated Lie series of `-G` undoes the truncated Lie series of `G`, and vice versa, in
every coefficient of degree `≤ N`. -/
theorem lie_series_inverse (N : Nat) (G f : MvPolynomial (Fin 6) K) (hG : Ord 3 G) (s : Fin 6 →₀ ℕ) (hs : s.degree ≤ N) :
    MvPolynomial.coeff s (lieSum N (-G) (lieSum N G f)) = MvPolynomial.coeff s f ∧
    MvPolynomial.coeff s (lieSum N G (lieSum N (-G) f)) = MvPolynomial.coeff s f :=
  ⟨(lieSum_neg_lieSum N hG f).coeff_eq s hs, (lieSum_lieSum_neg N hG f).coeff_eq s hs⟩

open HitenModel.LieSeries in
/-- **composed_maps_mutually_inverse** (any list of generator degrees, any family of generators without terms of degree `< 3`): with
`Ψ = psiFn N Gf order` (point map `Φ_{n1} ∘ … ∘ Φ_{nk}`, `Φ_n = exp(ad_{Gf n})`) and `Ψ' = psiFn N (-Gf) order.reverse`
(`Φ⁻_{nk} ∘ … ∘ Φ⁻_{n1}`): `(Ψ' i) ∘ Ψ` and `(Ψ i) ∘ Ψ'` have the coefficients of `x_i` in every degree `≤ N`. -/
theorem composed_maps_mutually_inverse (N : Nat) (Gf : Nat → MvPolynomial (Fin 6) K) (order : List Nat)
    (hG : ∀ n ∈ order, Ord 3 (Gf n)) (i : Fin 6) (s : Fin 6 →₀ ℕ) (hs : s.degree ≤ N) :
    MvPolynomial.coeff s (MvPolynomial.aeval (psiFn N Gf order) (psiFn N (fun n => -Gf n) order.reverse i)) =
      MvPolynomial.coeff s (X i : MvPolynomial (Fin 6) K) ∧
    MvPolynomial.coeff s (MvPolynomial.aeval (psiFn N (fun n => -Gf n) order.reverse) (psiFn N Gf order i)) =
      MvPolynomial.coeff s (X i : MvPolynomial (Fin 6) K) :=
  ⟨(psiFn_inverse_left N Gf order hG i).coeff_eq s hs, (psiFn_inverse_right N Gf order hG i).coeff_eq s hs⟩

open HitenModel.LieSeries in
/-- **lie_expansions_mutually_inverse** — on the model of `_lie_expansion` (unrestricted), for ANY `poly_G_total`, any `N`, exact cleaning as
the only hypothesis: let `F_j` be the six polynomials of the forward expansion (`inverse=False, sign=+1`) and `I_j` those of the inverse
expansion (`inverse=True, sign=-1`).  Then `I_i ∘ F` (point map: inverse after forward) and `F_i ∘ I` (forward after inverse) have, in
every monomial of degree `≤ N`, the coefficient of the coordinate polynomial `x_i`. -/
theorem lie_expansions_mutually_inverse {tiny : K → Bool} (htiny : ∀ c, tiny c = true → c = 0) (N : Nat) (Gtot : Poly K) (i : Fin 6)
    (m : Mono) (hm : m.deg ≤ N) :
    MvPolynomial.coeff m.toFinsupp
        (MvPolynomial.aeval (fun j : Fin 6 => toMv ((lieExpansion tiny N Gtot false 1 false).getD j.val []))
          (toMv ((lieExpansion tiny N Gtot true (-1) false).getD i.val []))) = coeff (coordPoly i) m ∧
    MvPolynomial.coeff m.toFinsupp
        (MvPolynomial.aeval (fun j : Fin 6 => toMv ((lieExpansion tiny N Gtot true (-1) false).getD j.val []))
          (toMv ((lieExpansion tiny N Gtot false 1 false).getD i.val []))) = coeff (coordPoly i) m := by
  have hd : m.toFinsupp.degree ≤ N := by rw [toFinsupp_degree]; exact hm
  rw [← coeff_toMv (coordPoly i) m, toMv_coordPoly]
  exact ⟨(lieExpansion_inverse_of_forward htiny N Gtot i).coeff_eq _ hd, (lieExpansion_forward_of_inverse htiny N Gtot i).coeff_eq _ hd⟩

open HitenModel.LieSeries in
/-- **normal_form_expansions_mutually_inverse** — the headline for the generator RETURNED by `_lie_transform`: the forward and the inverse
coordinate expansion of `poly_G_total = (lieTransform c H).G` are mutually inverse up to the truncation order `N`, coefficientwise, for
every configuration with exact cleaning and every input Hamiltonian. -/
theorem normal_form_expansions_mutually_inverse (c : Cfg K) (htiny : ∀ x, c.tiny x = true → x = 0) (H : Poly K) (i : Fin 6)
    (m : Mono) (hm : m.deg ≤ c.N) :
    MvPolynomial.coeff m.toFinsupp
        (MvPolynomial.aeval (fun j : Fin 6 => toMv ((lieExpansion c.tiny c.N (lieTransform c H).G false 1 false).getD j.val []))
          (toMv ((lieExpansion c.tiny c.N (lieTransform c H).G true (-1) false).getD i.val []))) = coeff (coordPoly i) m ∧
    MvPolynomial.coeff m.toFinsupp
        (MvPolynomial.aeval (fun j : Fin 6 => toMv ((lieExpansion c.tiny c.N (lieTransform c H).G true (-1) false).getD j.val []))
          (toMv ((lieExpansion c.tiny c.N (lieTransform c H).G false 1 false).getD i.val []))) = coeff (coordPoly i) m :=
  lie_expansions_mutually_inverse htiny c.N (lieTransform c H).G i m hm

open HitenModel.LieSeries in
/-- **poisson_jacobi**: Jacobi identity for the canonical Poisson bracket; equivalently `ad_G = {·, G}` is a derivation of the bracket -/
theorem poisson_jacobi (f g h : MvPolynomial (Fin 6) K) :
    PB (PB f g) h + PB (PB g h) f + PB (PB h f) g = 0 ∧ PB (PB f g) h = PB (PB f h) g + PB f (PB g h) :=
  ⟨PB_jacobi f g h, PB_PB f g h⟩

open HitenModel.LieSeries in
/-- **lie_series_preserves_bracket**: for a generator without terms of degree `< 3`, `f` without terms of degree `< kf`, `g` without terms
of degree `< kg`: `exp(ad_G){f,g}` and `{exp(ad_G) f, exp(ad_G) g}` (truncated after `N` brackets) agree in every coefficient of degree
`≤ M`, provided `M + 2 ≤ N + kf + kg`. -/
theorem lie_series_preserves_bracket (N M kf kg : Nat) (G f g : MvPolynomial (Fin 6) K) (hG : Ord 3 G) (hf : Ord kf f) (hg : Ord kg g)
    (hM : M + 2 ≤ N + kf + kg) (s : Fin 6 →₀ ℕ) (hs : s.degree ≤ M) :
    MvPolynomial.coeff s (lieSum N G (PB f g)) = MvPolynomial.coeff s (PB (lieSum N G f) (lieSum N G g)) :=
  (lieSum_PB_cong N M kf kg hG hf hg hM).coeff_eq s hs

open HitenModel.LieSeries in
/-- **lie_series_map_is_symplectic** (one generator): the truncated coordinate map `Φ_i = Σ_{n ≤ N} ad_G^n x_i / n!` satisfies
`{Φ_i, Φ_j} = J_ij` in every coefficient of degree `≤ N` (`J` the standard symplectic matrix, `Jmat`). -/
theorem lie_series_map_is_symplectic (N : Nat) (G : MvPolynomial (Fin 6) K) (hG : Ord 3 G) (i j : Fin 6)
    (s : Fin 6 →₀ ℕ) (hs : s.degree ≤ N) :
    MvPolynomial.coeff s (PB (lieSum N G (X i)) (lieSum N G (X j))) = MvPolynomial.coeff s (C (Jmat i j) : MvPolynomial (Fin 6) K) := by
  rw [← PB_X_X]
  exact (lieSum_symplectic N hG i j).coeff_eq s hs

open HitenModel.LieSeries in
/-- **lie_expansion_is_canonical** — on the model of `_lie_expansion` (unrestricted; forward or inverse; any sign; ANY `poly_G_total`; exact
cleaning as only hypothesis): the Poisson brackets (the code's `_polynomial_poisson_bracket`, `poisson`) of the six returned polynomials
`P_i` are the brackets of the coordinates, `{P_i, P_j} = {x_i, x_j} = J_ij`, in every coefficient of degree `≤ N - 1` — the returned map is
a canonical (symplectic) transformation up to the truncation order.  (`P_i` is only known up to degree `N` and the bracket lowers the
degree by one here, hence `N - 1`.) -/
theorem lie_expansion_is_canonical {tiny : K → Bool} (htiny : ∀ c, tiny c = true → c = 0) (N : Nat) (Gtot : Poly K)
    (inverse : Bool) (sign : K) (i j : Fin 6) (m : Mono) (hm : m.deg + 1 ≤ N) :
    coeff (poisson ((lieExpansion tiny N Gtot inverse sign false).getD i.val [])
        ((lieExpansion tiny N Gtot inverse sign false).getD j.val [])) m =
      coeff (poisson (coordPoly i) (coordPoly j)) m := by
  rw [← coeff_toMv, ← coeff_toMv, toMv_poisson, toMv_poisson, toMv_coordPoly, toMv_coordPoly]
  exact (lieExpansion_symplectic htiny N m.deg hm Gtot inverse sign i j).coeff_eq _ (by rw [toFinsupp_degree])

open HitenModel.LieSeries in
/-- the value of the coordinate brackets: `{x_i, x_j} = J_ij` (constant polynomial; `J_ij = 1` for `(q_k, p_k)`, `-1` for `(p_k, q_k)`) -/
theorem coord_brackets (i j : Fin 6) (m : Mono) :
    coeff (poisson (coordPoly (K := K) i) (coordPoly j)) m = if m.deg = 0 then Jmat i j else 0 := by
  rw [← coeff_toMv, toMv_poisson, toMv_coordPoly, toMv_coordPoly, PB_X_X, MvPolynomial.coeff_C, ← toFinsupp_degree]
  by_cases h : m.toFinsupp = 0
  · rw [if_pos h.symm, if_pos ((Finsupp.degree_eq_zero_iff _).mpr h)]
  · rw [if_neg (fun h' => h h'.symm), if_neg (fun h' => h ((Finsupp.degree_eq_zero_iff _).mp h'))]

open HitenModel.LieSeries in
/-- **normal_form_transformation_is_canonical** — for the generator RETURNED by `_lie_transform`: the forward expansion (the map `Ψ` with
`H_new ≡ H_old ∘ Ψ`, `normal_form_is_composition_with_expansion`) and the inverse expansion are both canonical up to the truncation order. -/
theorem normal_form_transformation_is_canonical (c : Cfg K) (htiny : ∀ x, c.tiny x = true → x = 0) (H : Poly K) (i j : Fin 6)
    (m : Mono) (hm : m.deg + 1 ≤ c.N) :
    coeff (poisson ((lieExpansion c.tiny c.N (lieTransform c H).G false 1 false).getD i.val [])
        ((lieExpansion c.tiny c.N (lieTransform c H).G false 1 false).getD j.val [])) m =
      coeff (poisson (coordPoly i) (coordPoly j)) m ∧
    coeff (poisson ((lieExpansion c.tiny c.N (lieTransform c H).G true (-1) false).getD i.val [])
        ((lieExpansion c.tiny c.N (lieTransform c H).G true (-1) false).getD j.val [])) m =
      coeff (poisson (coordPoly i) (coordPoly j)) m :=
  ⟨lie_expansion_is_canonical htiny c.N _ false 1 i j m hm, lie_expansion_is_canonical htiny c.N _ true (-1) i j m hm⟩

open HitenModel.LieSeries in
/-- **lie_expansion_preserves_all_brackets** — the canonical-transformation property in its strong form, on the model of `_lie_expansion`
(unrestricted; forward or inverse; any sign; any `poly_G_total`; exact cleaning): for ALL polynomials `A`, `B`, substituting the six returned
polynomials `P` commutes with the Poisson bracket, `{A ∘ P, B ∘ P} = {A, B} ∘ P`, in every coefficient of degree `≤ N - 1` (chain rule +
`lie_expansion_is_canonical`). -/
theorem lie_expansion_preserves_all_brackets {tiny : K → Bool} (htiny : ∀ c, tiny c = true → c = 0) (N : Nat) (Gtot : Poly K)
    (inverse : Bool) (sign : K) (A B : Poly K) (m : Mono) (hm : m.deg + 1 ≤ N) :
    MvPolynomial.coeff m.toFinsupp
        (PB (MvPolynomial.aeval (fun i : Fin 6 => toMv ((lieExpansion tiny N Gtot inverse sign false).getD i.val [])) (toMv A))
          (MvPolynomial.aeval (fun i : Fin 6 => toMv ((lieExpansion tiny N Gtot inverse sign false).getD i.val [])) (toMv B))) =
      MvPolynomial.coeff m.toFinsupp
        (MvPolynomial.aeval (fun i : Fin 6 => toMv ((lieExpansion tiny N Gtot inverse sign false).getD i.val []))
          (toMv (poisson A B))) := by
  rw [toMv_poisson]
  exact (lieExpansion_preserves_brackets htiny N m.deg hm Gtot inverse sign (toMv A) (toMv B)).coeff_eq _ (by rw [toFinsupp_degree])

open HitenModel.LieSeries in
/-- non-vacuity: an explicit cubic generator over ℚ has order `≥ 3` (hypothesis `Ord 3 G` of the one-generator theorems), exact cleaning is
`tiny c ⇔ c = 0`, and `m.deg + 1 ≤ N` holds e.g. for the constant monomial and `N = 4` -/
example :
    Ord 3 (toMv ([(⟨2, 0, 0, 1, 0, 0⟩, (1 : ℚ)), (⟨0, 1, 1, 0, 1, 0⟩, 3)] : Poly ℚ)) ∧
    (∀ c : ℚ, decide (c = 0) = true → c = 0) ∧ (⟨0, 0, 0, 0, 0, 0⟩ : Mono).deg + 1 ≤ 4 := by
  refine ⟨ord_toMv 3 _ fun v hv => ?_, fun c hc => by simpa using hc, by decide⟩
  simp only [List.mem_cons, List.not_mem_nil, or_false] at hv
  rcases hv with rfl | rfl <;> decide

open HitenModel.LieSeries in
/-- non-vacuity of the conclusion: the coordinate brackets are not all zero, `{q1, p1} = 1`, `{p1, q1} = -1`, `{q1, q2} = 0` -/
example : (Jmat 0 3 : ℚ) = 1 ∧ (Jmat 3 0 : ℚ) = -1 ∧ (Jmat 0 1 : ℚ) = 0 := by
  refine ⟨?_, ?_, ?_⟩ <;> simp [Jmat]

end LieSeriesProps

end HitenModel.Props.C08
