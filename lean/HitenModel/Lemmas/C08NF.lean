/-
  Lemmas/C08NF.lean — one truncated Lie series with a homogeneous generator (what it does to every homogeneous block),
  one pass of the `_lie_transform` loop, and the loop invariant.
-/
import HitenModel.Lemmas.C08Mv

set_option linter.unusedSectionVars false
set_option linter.unusedSimpArgs false

namespace HitenModel.C08

section
variable {K : Type} [Field K] [DecidableEq K]

/-- every term has degree between 2 and `N` (no constant / linear part, nothing beyond the truncation degree) -/
def DegBounds (N : Nat) (H : Poly K) : Prop := ∀ t ∈ H, 2 ≤ t.1.deg ∧ t.1.deg ≤ N

/-- the quadratic part is `e1 q1 p1 + e2 q2 p2 + e3 q3 p3` -/
def QuadIs (e1 e2 e3 : K) (H : Poly K) : Prop := ∀ m : Mono, m.deg = 2 → coeff H m = coeff (H2 e1 e2 e3) m

/-- normal form through degree `d`: no selected monomial of degree `3..d` survives unless the small-divisor guard
skipped it -/
def NormalUpTo (c : Cfg K) (H : Poly K) (d : Nat) : Prop :=
  ∀ m : Mono, 3 ≤ m.deg → m.deg ≤ d → c.sel m = true → c.small (divisor c.e1 c.e2 c.e3 m) = false → coeff H m = 0

theorem H2_deg {e1 e2 e3 : K} {t : Mono × K} (h : t ∈ H2 e1 e2 e3) : t.1.deg = 2 := by
  simp only [H2, List.mem_cons, List.not_mem_nil, or_false] at h
  rcases h with h | h | h <;> (rw [h]; rfl)

theorem coeff_H2_of_deg_ne {e1 e2 e3 : K} {m : Mono} (h : m.deg ≠ 2) : coeff (H2 e1 e2 e3) m = 0 :=
  coeff_eq_zero_of_not_mem fun t ht e => h (e ▸ H2_deg ht)

theorem fact_pos (k : Nat) : 0 < fact k := by
  induction k with
  | zero => simp [fact]
  | succ k ih => simp only [fact]; exact Nat.mul_pos (Nat.succ_pos k) ih

/-- one bracket step of the series: degrees rise by `n - 2`, nothing beyond `N` -/
theorem mem_bracketStep {tiny : K → Bool} {N n d : Nat} {G B : Poly K} (hG : ∀ v ∈ G, v.1.deg = n) (hn : 2 ≤ n)
    (hB : ∀ u ∈ B, d ≤ u.1.deg) : ∀ u ∈ clean tiny (trunc N (poisson B G)), d + (n - 2) ≤ u.1.deg ∧ u.1.deg ≤ N := by
  intro u hu
  obtain ⟨w, hw, e⟩ := mem_clean hu
  simp only [trunc, List.mem_filter, decide_eq_true_eq] at hw
  obtain ⟨a, ha, b, hb, hd⟩ := mem_poisson hw.1
  have h1 := hB a ha
  have h2 := hG b hb
  rw [← e]
  exact ⟨by omega, hw.2⟩

/-- the series never touches the blocks below the generator's degree, and creates nothing of degree < 2 or > N -/
theorem lieSeries_degBounds {tiny : K → Bool} {N n Kc : Nat} {G H : Poly K} (hG : ∀ v ∈ G, v.1.deg = n) (hn : 2 ≤ n)
    (hH : DegBounds N H) : DegBounds N (lieSeries tiny N Kc G H) := by
  intro t ht
  obtain ⟨u, hu, e⟩ := mem_clean ht
  rw [← e]
  rcases List.mem_append.mp hu with h | h
  · exact hH u h
  · have := mem_lieTerms (tiny := tiny) (N := N) hG hn Kc 0 2 H (fun w hw => (hH w hw).1) u h
    exact ⟨by omega, this.2⟩

theorem coeff_lieSeries_lt {tiny : K → Bool} (htiny : ∀ c, tiny c = true → c = 0) {N n Kc : Nat} {G H : Poly K}
    (hG : ∀ v ∈ G, v.1.deg = n) (hn : 2 ≤ n) (hH : DegBounds N H) {m : Mono} (hm : m.deg < n) :
    coeff (lieSeries tiny N Kc G H) m = coeff H m := by
  unfold lieSeries
  rw [coeff_clean htiny, coeff_append]
  have h0 : coeff (lieTerms tiny N G Kc 0 H) m = 0 := by
    apply coeff_eq_zero_of_not_mem
    intro t ht e
    have := mem_lieTerms (tiny := tiny) (N := N) hG hn Kc 0 2 H (fun w hw => (hH w hw).1) t ht
    rw [e] at this
    omega
  rw [h0, add_zero]

/-- **what the series does at the generator's own degree**: the block of degree `n` becomes `H_n + {H_2, G_n}` -/
theorem coeff_lieSeries_eq {tiny : K → Bool} (htiny : ∀ c, tiny c = true → c = 0) {N n Kc : Nat} {G H : Poly K}
    (hG : ∀ v ∈ G, v.1.deg = n) (hn : 3 ≤ n) (hH : DegBounds N H) (hK : 1 ≤ Kc) {m : Mono} (hm : m.deg = n) (hN : n ≤ N) :
    coeff (lieSeries tiny N Kc G H) m = coeff H m + coeff (poisson (block 2 H) G) m := by
  obtain ⟨Kc', rfl⟩ : ∃ k, Kc = k + 1 := ⟨Kc - 1, by omega⟩
  unfold lieSeries
  rw [coeff_clean htiny, coeff_append]
  congr 1
  simp only [lieTerms]
  rw [coeff_append, coeff_scale]
  have hB1 := mem_bracketStep (tiny := tiny) (N := N) (d := 2) hG (by omega : 2 ≤ n) (fun w hw => (hH w hw).1)
  have htail : coeff (lieTerms tiny N G Kc' (0 + 1) (clean tiny (trunc N (poisson H G)))) m = 0 := by
    apply coeff_eq_zero_of_not_mem
    intro t ht e
    have := mem_lieTerms (tiny := tiny) (N := N) hG (by omega : 2 ≤ n) Kc' (0 + 1) (2 + (n - 2)) _
      (fun u hu => (hB1 u hu).1) t ht
    rw [e] at this
    omega
  rw [htail, add_zero, coeff_clean htiny, coeff_trunc, if_pos (by omega)]
  have h1 : (1 / ((fact (0 + 1) : Nat) : K)) = 1 := by simp [fact]
  rw [h1, one_mul]
  -- split H into its quadratic block and the rest
  have hsplit : ∀ m', coeff H m' = coeff (block 2 H ++ H.filter (fun t => decide (t.1.deg ≠ 2))) m' := by
    intro m'
    rw [coeff_append, coeff_block]
    have := coeff_filter_mono (fun k => decide (k.deg ≠ 2)) H m'
    rw [this]
    by_cases h2 : m'.deg = 2 <;> simp [h2]
  rw [coeff_poisson_congr hsplit (fun _ => rfl), coeff_poisson_append_left]
  have hrest : coeff (poisson (H.filter (fun t => decide (t.1.deg ≠ 2))) G) m = 0 := by
    apply coeff_eq_zero_of_not_mem
    intro t ht e
    obtain ⟨a, ha, b, hb, hd⟩ := mem_poisson ht
    simp only [List.mem_filter, decide_eq_true_eq] at ha
    have := (hH a ha.1).1
    have := hG b hb
    rw [e] at hd
    omega
  rw [hrest, add_zero]

/-- the generator computed in one pass is homogeneous of the current degree -/
theorem gen_homogeneous {c : Cfg K} {H : Poly K} {n : Nat} :
    ∀ v ∈ clean c.tiny (solve c.small c.e1 c.e2 c.e3 (select c.sel (normalize (block n H)))), v.1.deg = n := by
  intro v hv
  obtain ⟨u, hu, e⟩ := mem_clean hv
  obtain ⟨w, hw, e2⟩ := mem_solve hu
  simp only [select, List.mem_filter] at hw
  obtain ⟨x, hx, e3⟩ := mem_normalize hw.1
  simp only [block, List.mem_filter, decide_eq_true_eq] at hx
  rw [← e, ← e2, ← e3]; exact hx.2

theorem Kpoly_pos {N n : Nat} (hn : 3 ≤ n) (hN : n ≤ N) : 1 ≤ Kpoly N n := by
  unfold Kpoly
  rw [if_pos (by omega)]
  exact le_trans (by omega : 1 ≤ N) (Nat.le_max_left _ _)

/-- the three facts one pass of the loop establishes -/
structure StepResult (c : Cfg K) (s s' : LState K) (n : Nat) : Prop where
  deg : DegBounds c.N s'.trans
  below : ∀ m : Mono, m.deg < n → coeff s'.trans m = coeff s.trans m
  kept : ∀ m : Mono, m.deg = n → c.sel m = false → coeff s'.trans m = coeff s.trans m
  removed : ∀ m : Mono, m.deg = n → c.sel m = true → c.small (divisor c.e1 c.e2 c.e3 m) = false → coeff s'.trans m = 0

/-- **one pass of `_lie_transform`** at degree `n`: blocks below `n` are untouched, the monomials of degree `n` that are
not selected keep their coefficient, the selected ones whose divisor is not guarded out are removed — for every input
without constant/linear part whose quadratic part is the diagonal `H2` -/
theorem lieStep_spec (c : Cfg K) (htiny : ∀ x, c.tiny x = true → x = 0) (hsmall : ∀ d, c.small d = false → d ≠ 0)
    (s : LState K) (n : Nat) (hn : 3 ≤ n) (hN : n ≤ c.N) (hdeg : DegBounds c.N s.trans)
    (hquad : QuadIs c.e1 c.e2 c.e3 s.trans) : StepResult c s (lieStep c s n) n := by
  have hpn : ∀ m : Mono, m.deg = n → coeff (normalize (block n s.trans)) m = coeff s.trans m := by
    intro m hm; rw [coeff_normalize, coeff_block, if_pos hm]
  by_cases h1 : (normalize (block n s.trans)).isEmpty = true
  · have e : lieStep c s n = s := by simp only [lieStep, h1, ↓reduceIte]
    rw [e]
    refine ⟨hdeg, fun _ _ => rfl, fun _ _ _ => rfl, fun m hm _ _ => ?_⟩
    rw [← hpn m hm, List.isEmpty_iff.mp h1]; rfl
  by_cases h2 : (select c.sel (normalize (block n s.trans))).isEmpty = true
  · have e : lieStep c s n = s := by simp only [lieStep, h1, h2, ↓reduceIte, Bool.false_eq_true]
    rw [e]
    refine ⟨hdeg, fun _ _ => rfl, fun _ _ _ => rfl, fun m hm hsel _ => ?_⟩
    have := coeff_select c.sel (normalize (block n s.trans)) m
    rw [if_pos hsel, hpn m hm, List.isEmpty_iff.mp h2] at this
    exact this.symm
  · have e : (lieStep c s n).trans = lieSeries c.tiny c.N (Kpoly c.N n)
        (clean c.tiny (solve c.small c.e1 c.e2 c.e3 (select c.sel (normalize (block n s.trans))))) s.trans := by
      simp only [lieStep, h1, h2, ↓reduceIte, Bool.false_eq_true]
    have hG := gen_homogeneous (c := c) (H := s.trans) (n := n)
    -- coefficient of the generator
    have hg : ∀ m : Mono, m.deg = n →
        coeff (clean c.tiny (solve c.small c.e1 c.e2 c.e3 (select c.sel (normalize (block n s.trans))))) m
          = if c.small (divisor c.e1 c.e2 c.e3 m) then 0
            else - (if c.sel m then coeff s.trans m else 0) / divisor c.e1 c.e2 c.e3 m := by
      intro m hm
      rw [coeff_clean htiny, coeff_solve, coeff_select, hpn m hm]
    -- the block of degree n after the series
    have hblock : ∀ m : Mono, m.deg = n → coeff (lieStep c s n).trans m
        = coeff s.trans m + divisor c.e1 c.e2 c.e3 m *
          coeff (clean c.tiny (solve c.small c.e1 c.e2 c.e3 (select c.sel (normalize (block n s.trans))))) m := by
      intro m hm
      rw [e, coeff_lieSeries_eq htiny hG hn hdeg (Kpoly_pos hn hN) hm hN, ← coeff_poisson_H2]
      congr 1
      apply coeff_poisson_congr _ (fun _ => rfl)
      intro m'
      rw [coeff_block]
      by_cases h : m'.deg = 2
      · rw [if_pos h, hquad m' h]
      · rw [if_neg h, coeff_H2_of_deg_ne h]
    refine ⟨?_, ?_, ?_, ?_⟩
    · rw [e]; exact lieSeries_degBounds hG (by omega) hdeg
    · intro m hm; rw [e]; exact coeff_lieSeries_lt htiny hG (by omega) hdeg hm
    · intro m hm hsel
      rw [hblock m hm, hg m hm, hsel]
      by_cases hs : c.small (divisor c.e1 c.e2 c.e3 m) = true
      · simp [hs]
      · simp [hs]
    · intro m hm hsel hs
      have hd := hsmall _ hs
      rw [hblock m hm, hg m hm, hs, hsel]
      simp only [Bool.false_eq_true, ↓reduceIte]
      field_simp
      ring

theorem lieLoop_succ (c : Cfg K) (s : LState K) (cnt : Nat) : lieLoop c s (cnt + 1) = lieStep c (lieLoop c s cnt) (3 + cnt) := by
  unfold lieLoop
  rw [List.range'_concat, List.foldl_append]
  simp

/-- **loop invariant of `_lie_transform`**: after the passes `n = 3 … 2+cnt` the polynomial still has no constant /
linear part, its quadratic part is still `H2`, and it is in normal form through degree `2 + cnt` -/
theorem lieLoop_invariant (c : Cfg K) (htiny : ∀ x, c.tiny x = true → x = 0) (hsmall : ∀ d, c.small d = false → d ≠ 0)
    (s : LState K) (hdeg : DegBounds c.N s.trans) (hquad : QuadIs c.e1 c.e2 c.e3 s.trans) :
    ∀ cnt, 2 + cnt ≤ c.N →
      DegBounds c.N (lieLoop c s cnt).trans ∧ QuadIs c.e1 c.e2 c.e3 (lieLoop c s cnt).trans ∧
        NormalUpTo c (lieLoop c s cnt).trans (2 + cnt) ∧
        (∀ m : Mono, m.deg = 2 → coeff (lieLoop c s cnt).trans m = coeff s.trans m) := by
  intro cnt
  induction cnt with
  | zero =>
    intro _
    refine ⟨hdeg, hquad, ?_, fun _ _ => rfl⟩
    intro m h3 h2; omega
  | succ cnt ih =>
    intro hle
    obtain ⟨d, q, nf, h2⟩ := ih (by omega)
    have st := lieStep_spec c htiny hsmall (lieLoop c s cnt) (3 + cnt) (by omega) (by omega) d q
    rw [lieLoop_succ]
    refine ⟨st.deg, ?_, ?_, ?_⟩
    · intro m hm; rw [st.below m (by omega)]; exact q m hm
    · intro m h3 hle' hsel hs
      by_cases hm : m.deg = 3 + cnt
      · exact st.removed m hm hsel hs
      · rw [st.below m (by omega)]; exact nf m h3 (by omega) hsel hs
    · intro m hm; rw [st.below m (by omega)]; exact h2 m hm

end

end HitenModel.C08
