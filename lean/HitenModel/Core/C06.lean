/- Core/C06.lean — hand model of hiten.algorithms.polynomial (base.py, algebra.py, operations.py); import-free, executable.

Everything numerical is polymorphic in the coefficient type `K` and uses only notation classes, so the *same*
definitions are (a) executed over Gaussian rationals by `Drivers/C06.lean` for the exact correspondence with the real
njit kernels and (b) reasoned about over an arbitrary commutative ring / field in `Props/C06.lean`.

Python object                                    model
-----------------------------------------------  ----------------------------------------------------------------
_combinations                                    comb / combGo
_init_index_tables: psi                          psi
_init_index_tables: nested k0..k4 loops          enum 6 d           (multi-indices of degree d in loop order)
_init_index_tables: clmo[d]                      clmoModel d = (enum 6 d).map pack ;  mkTables D = clmo[0..D]
_pack_multiindex                                 pack               (6-bit fields, k[0] implicit, uint32 cast)
_decode_multiindex / _fill_exponents             decodePacked / decode
_ENCODE_DICT_GLOBAL / _create_encode_dict_...    findPos (the dict of degree d is the inverse of clmo[d])
_encode_multiindex                               encode             (none = -1; out-of-range degree = -1)
_poly_add / _poly_scale                          polyAdd / polyScale
prange + scratch[tid, idx] += v + reduction      parKernel n upd sched   (sched : thread ↦ its outer iterations, in order)
_poly_mul / _poly_diff                           polyMulSched / polyDiffSched (polyMul / polyDiff = one thread)
_poly_integrate, _poly_poisson, _poly_evaluate   polyIntegrate, polyPoisson, polyEvaluate
operations.py graded lists                       polynomialZeroList, polynomialVariable, polynomialAddInplace,
                                                 polynomialMultiply, polynomialPower, polynomialPoissonBracket,
                                                 polynomialDifferentiate, polynomialIntegrate, polynomialEvaluate,
                                                 linearVariablePolys, substituteLinear, substituteAffine, polynomialClean,
                                                 polynomialJacobian, polynomialDegree, getDegree, polynomialTotalDegree
-/
namespace HitenModel.C06

/-! ## 1. index tables -/

/-- loop of `_combinations`: `res = res * (n - i + 1) // i` for `i = i₀, i₀+1, …` (`steps` iterations) -/
def combGo (n : Nat) : Nat → Nat → Nat → Nat
  | 0, _, res => res
  | s + 1, i, res => combGo n s (i + 1) (res * (n - i + 1) / i)

/-- `_combinations(n, k)` -/
def comb (n k : Nat) : Nat :=
  if k > n then 0
  else if k = 0 ∨ k = n then 1
  else
    let k' := if k > n / 2 then n - k else k
    if k' = 0 then 1 else combGo n k' 1 1

/-- `psi[i, d]` of `_init_index_tables` (rows 1..6 by `_combinations`, `psi[0,0] = 1`, rest of row 0 zero) -/
def psi (i d : Nat) : Nat :=
  if i = 0 then (if d = 0 then 1 else 0) else comb (d + i - 1) (i - 1)

/-- nested-loop enumeration: `k0` from `d` down to `0`, then recursively the remaining variables; the last
variable takes the remainder (`k5 = d - k0 - … - k4`) -/
def enum : Nat → Nat → List (List Nat)
  | 0, d => if d = 0 then [[]] else []
  | 1, d => [[d]]
  | (n + 2), d => ((List.range (d + 1)).reverse).flatMap fun k => (enum (n + 1) (d - k)).map (k :: ·)

/-- `_pack_multiindex` (and the inline packing of `_init_index_tables`): `k[0]` is not stored -/
def pack (k : List Nat) : Nat :=
  ((k.getD 1 0 &&& 0x3F)
    ||| ((k.getD 2 0 &&& 0x3F) <<< 6)
    ||| ((k.getD 3 0 &&& 0x3F) <<< 12)
    ||| ((k.getD 4 0 &&& 0x3F) <<< 18)
    ||| ((k.getD 5 0 &&& 0x3F) <<< 24)) % 4294967296

/-- `clmo[d]` -/
def clmoModel (d : Nat) : List Nat := (enum 6 d).map pack

/-- the typed list `clmo` returned by `_init_index_tables(D)` -/
def mkTables (D : Nat) : List (List Nat) := (List.range (D + 1)).map clmoModel

/-- body of `_decode_multiindex` / `_fill_exponents` after the table read -/
def decodePacked (degree packed : Nat) : List Nat :=
  let k1 := packed &&& 0x3F
  let k2 := (packed >>> 6) &&& 0x3F
  let k3 := (packed >>> 12) &&& 0x3F
  let k4 := (packed >>> 18) &&& 0x3F
  let k5 := (packed >>> 24) &&& 0x3F
  [degree - (k1 + k2 + k3 + k4 + k5), k1, k2, k3, k4, k5]

/-- `_decode_multiindex(pos, degree, clmo)` -/
def decode (clmo : List (List Nat)) (pos degree : Nat) : List Nat :=
  decodePacked degree ((clmo.getD degree []).getD pos 0)

/-- position of `x` in a table (the encode dict of a degree is the inverse of `clmo[degree]`) -/
def findPos (x : Nat) : List Nat → Nat → Option Nat
  | [], _ => none
  | y :: ys, i => if y = x then some i else findPos x ys (i + 1)

/-- `_encode_multiindex(k, degree, encode_dict_list)`; `none` = `-1` -/
def encode (clmo : List (List Nat)) (k : List Nat) (degree : Nat) : Option Nat :=
  if degree < clmo.length then findPos (pack k) (clmo.getD degree []) 0 else none

def addIdx (a b : List Nat) : List Nat := List.zipWith (· + ·) a b

/-! ## 2. coefficient blocks -/

section
variable {K : Type} [Add K] [Mul K] [OfNat K 0]

def zeros (n : Nat) : List K := List.replicate n 0

/-- `arr[idx] += v` -/
def addAt : List K → Nat → K → List K
  | [], _, _ => []
  | a :: as, 0, v => (a + v) :: as
  | a :: as, n + 1, v => a :: addAt as n v

/-- `out[i] = p[i] + q[i]` for `i < p.shape[0]` -/
def polyAdd (p q : List K) : List K := List.zipWith (· + ·) p q

/-- `out[i] = alpha * p[i]` -/
def polyScale (alpha : K) (p : List K) : List K := p.map (alpha * ·)

/-- a sequence of `arr[idx] += v` statements -/
def applyUpd (acc : List K) (ups : List (Nat × K)) : List K := ups.foldl (fun a u => addAt a u.1 u.2) acc

/-- the scratch row of one thread: it runs its outer iterations `iters` in the given order -/
def threadRow (n : Nat) (upd : Nat → List (Nat × K)) (iters : List Nat) : List K :=
  applyUpd (zeros n) (iters.flatMap upd)

/-- `r = zeros; for tid in range(nT): r += scratch[tid]` -/
def reduceRows (n : Nat) (rows : List (List K)) : List K := rows.foldl polyAdd (zeros n)

/-- `prange` loop with thread-private scratch rows followed by the reduction.
`sched[t]` = the outer iterations thread `t` executes, in execution order. -/
def parKernel (n : Nat) (upd : Nat → List (Nat × K)) (sched : List (List Nat)) : List K :=
  reduceRows n (sched.map (threadRow n upd))

variable [DecidableEq K]

/-- body of the outer iteration `i` of `_poly_mul`: the list of `scratch[tid, idx] += pi*qj` it performs -/
def mulUpd (clmo : List (List Nat)) (p : List K) (dp : Nat) (q : List K) (dq : Nat) (i : Nat) : List (Nat × K) :=
  let pi := p.getD i 0
  if pi = 0 then [] else
  let ki := decode clmo i dp
  (List.range q.length).filterMap fun j =>
    let qj := q.getD j 0
    if qj = 0 then none else
    match encode clmo (addIdx ki (decode clmo j dq)) (dp + dq) with
    | none => none
    | some idx => some (idx, pi * qj)

/-- `_poly_mul` under a schedule of the `prange` -/
def polyMulSched (clmo : List (List Nat)) (p : List K) (dp : Nat) (q : List K) (dq : Nat) (sched : List (List Nat)) : List K :=
  parKernel (psi 6 (dp + dq)) (mulUpd clmo p dp q dq) sched

/-- `_poly_mul` on one thread -/
def polyMul (clmo : List (List Nat)) (p : List K) (dp : Nat) (q : List K) (dq : Nat) : List K :=
  polyMulSched clmo p dp q dq [List.range p.length]

variable [NatCast K]

/-- body of the outer iteration `i` of `_poly_diff` -/
def diffUpd (clmo : List (List Nat)) (p : List K) (var degree : Nat) (i : Nat) : List (Nat × K) :=
  let c := p.getD i 0
  if c = 0 then [] else
  let k := decode clmo i degree
  let e := k.getD var 0
  if e = 0 then [] else
  match encode clmo (k.set var (e - 1)) (degree - 1) with
  | none => []
  | some idx => [(idx, c * (e : K))]

/-- `_poly_diff` under a schedule of the `prange` -/
def polyDiffSched (clmo : List (List Nat)) (p : List K) (var degree : Nat) (sched : List (List Nat)) : List K :=
  if degree = 0 then zeros (psi 6 0) else parKernel (psi 6 (degree - 1)) (diffUpd clmo p var degree) sched

def polyDiff (clmo : List (List Nat)) (p : List K) (var degree : Nat) : List K :=
  polyDiffSched clmo p var degree [List.range p.length]

/-- `_poly_integrate` (sequential loop) -/
def intUpd [Div K] (clmo : List (List Nat)) (p : List K) (var degree : Nat) (i : Nat) : List (Nat × K) :=
  let c := p.getD i 0
  if c = 0 then [] else
  let k := decode clmo i degree
  let e := k.getD var 0
  match encode clmo (k.set var (e + 1)) (degree + 1) with
  | none => []
  | some idx => [(idx, c / ((e + 1 : Nat) : K))]

def polyIntegrate [Div K] (clmo : List (List Nat)) (p : List K) (var degree : Nat) : List K :=
  applyUpd (zeros (psi 6 (degree + 1))) ((List.range p.length).flatMap (intUpd clmo p var degree))

/-- `r -= term` -/
def polySub [Sub K] (p q : List K) : List K := List.zipWith (· - ·) p q

/-- one `m`-iteration of `_poly_poisson` (both degrees ≥ 1 here) -/
def poissonStep [Sub K] (clmo : List (List Nat)) (σ : Nat → List (List Nat)) (p : List K) (dp : Nat) (q : List K) (dq : Nat)
    (r : List K) (m : Nat) : List K :=
  let dpx := polyDiffSched clmo p m dp (σ p.length)
  let dqqp := polyDiffSched clmo q (m + 3) dq (σ q.length)
  let term1 := polyMulSched clmo dpx (dp - 1) dqqp (dq - 1) (σ dpx.length)
  let r1 := if term1.length = r.length then polyAdd r term1 else r
  let dpq := polyDiffSched clmo p (m + 3) dp (σ p.length)
  let dqx := polyDiffSched clmo q m dq (σ q.length)
  let term2 := polyMulSched clmo dpq (dp - 1) dqx (dq - 1) (σ dpq.length)
  if term2.length = r1.length then polySub r1 term2 else r1

/-- `_poly_poisson`; `σ n` = the schedule the runtime uses for a `prange` of `n` iterations -/
def polyPoisson [Sub K] (clmo : List (List Nat)) (σ : Nat → List (List Nat)) (p : List K) (dp : Nat) (q : List K) (dq : Nat) : List K :=
  if dp = 0 ∨ dq = 0 then zeros (psi 6 0) else
  [0, 1, 2].foldl (poissonStep clmo σ p dp q dq) (zeros (psi 6 (dp + dq - 2)))

variable [OfNat K 1]

/-- `pow_table[v, 0..degree]` by repeated multiplication -/
def powTable (base : K) : Nat → List K
  | 0 => [1]
  | n + 1 => let t := powTable base n; t ++ [t.getD n 0 * base]

/-- `_poly_evaluate` -/
def polyEvaluate (clmo : List (List Nat)) (p : List K) (degree : Nat) (point : List K) : K :=
  if p.length = 0 then 0 else
  let tbl := point.map fun b => powTable b degree
  (List.range p.length).foldl (fun s i =>
    let c := p.getD i 0
    if c = 0 then s else
    let exps := decode clmo i degree
    let term := (List.range 6).foldl (fun t v => t * (tbl.getD v []).getD (exps.getD v 0) 0) (1 : K)
    s + c * term) 0

/-! ## 3. graded polynomials (operations.py): `List (List K)`, entry `d` = block of degree `d` -/

abbrev GPoly (K : Type) := List (List K)

def polynomialZeroList (maxDeg : Nat) : GPoly K := (List.range (maxDeg + 1)).map fun d => zeros (psi 6 d)

/-- `np.any(block)` -/
def anyNZ (b : List K) : Bool := b.any (fun c => decide (c ≠ 0))

/-- `_polynomial_variable(idx, max_deg, …)` -/
def polynomialVariable (clmo : List (List Nat)) (idx maxDeg : Nat) : GPoly K :=
  let z : GPoly K := polynomialZeroList maxDeg
  if 1 < z.length ∧ (z.getD 1 []).length > 0 then
    match encode clmo ((List.replicate 6 0).set idx 1) 1 with
    | some e => if e < (z.getD 1 []).length then z.set 1 ((z.getD 1 []).set e 1) else z
    | none => z
  else z

/-- `_polynomial_add_inplace(p, q, scale, max_deg)` with an explicit `max_deg` (all call sites of the model pass one) -/
def polynomialAddInplace [Sub K] [Neg K] (P Q : GPoly K) (scale : K) (maxDeg : Nat) : GPoly K :=
  (List.range P.length).map fun d =>
    let pd := P.getD d []
    if d < min (maxDeg + 1) (min P.length Q.length) then
      let qd := Q.getD d []
      if pd.length = 0 ∨ qd.length = 0 then pd
      else if scale = 1 then polyAdd pd qd
      else if scale = -1 then polySub pd qd
      else polyAdd pd (polyScale scale qd)
    else pd

/-- inner `d2` loop of `_polynomial_multiply` for a fixed `d1` -/
def multiplyRow (clmo : List (List Nat)) (σ : Nat → List (List Nat)) (P Q : GPoly K) (maxDeg d1 : Nat) (R : GPoly K) : GPoly K :=
  if d1 ≥ P.length ∨ !anyNZ (P.getD d1 []) then R else
  (List.range (maxDeg + 1 - d1)).foldl (fun R d2 =>
    if d2 ≥ Q.length ∨ !anyNZ (Q.getD d2 []) then R else
    let prod := polyMulSched clmo (P.getD d1 []) d1 (Q.getD d2 []) d2 (σ (P.getD d1 []).length)
    if prod.length = (R.getD (d1 + d2) []).length then R.set (d1 + d2) (polyAdd (R.getD (d1 + d2) []) prod) else R) R

/-- `_polynomial_multiply` (product truncated at `max_deg`) -/
def polynomialMultiply (clmo : List (List Nat)) (σ : Nat → List (List Nat)) (P Q : GPoly K) (maxDeg : Nat) : GPoly K :=
  (List.range (maxDeg + 1)).foldl (fun R d1 => multiplyRow clmo σ P Q maxDeg d1 R) (polynomialZeroList maxDeg)

/-- the constant polynomial 1 (`poly_result[0][0] = 1`) -/
def polynomialOne (maxDeg : Nat) : GPoly K :=
  let z : GPoly K := polynomialZeroList maxDeg
  if (z.getD 0 []).length > 0 then z.set 0 ((z.getD 0 []).set 0 1) else z

/-- `while exponent > 0` loop of `_polynomial_power` (binary exponentiation), with fuel -/
def powerLoop (clmo : List (List Nat)) (σ : Nat → List (List Nat)) (maxDeg : Nat) : Nat → GPoly K → GPoly K → Nat → GPoly K
  | 0, result, _, _ => result
  | fuel + 1, result, base, exponent =>
    if exponent = 0 then result else
    let result' := if exponent % 2 = 1 then polynomialMultiply clmo σ result base maxDeg else result
    let base' := if exponent > 1 then polynomialMultiply clmo σ base base maxDeg else base
    powerLoop clmo σ maxDeg fuel result' base' (exponent / 2)

/-- `_polynomial_power` -/
def polynomialPower (clmo : List (List Nat)) (σ : Nat → List (List Nat)) (P : GPoly K) (k maxDeg : Nat) : GPoly K :=
  if k = 0 then polynomialOne maxDeg else powerLoop clmo σ maxDeg (k + 1) (polynomialOne maxDeg) P k

/-- `_polynomial_poisson_bracket` -/
def polynomialPoissonBracket [Sub K] (clmo : List (List Nat)) (σ : Nat → List (List Nat)) (P Q : GPoly K) (maxDeg : Nat) : GPoly K :=
  (List.range P.length).foldl (fun R d1 =>
    if !anyNZ (P.getD d1 []) then R else
    (List.range Q.length).foldl (fun R d2 =>
      if !anyNZ (Q.getD d2 []) then R else
      if d1 + d2 < 2 ∨ d1 + d2 - 2 > maxDeg then R else
      let t := polyPoisson clmo σ (P.getD d1 []) d1 (Q.getD d2 []) d2
      let rd := d1 + d2 - 2
      if t.length = (R.getD rd []).length then R.set rd (polyAdd (R.getD rd []) t) else R) R) (polynomialZeroList maxDeg)

/-- `_polynomial_differentiate` (same tables for the derivative); returns the list (the second component of the
real return value is `max(max_deg-1, 0)`) -/
def polynomialDifferentiate (clmo : List (List Nat)) (σ : Nat → List (List Nat)) (P : GPoly K) (var maxDeg : Nat) : GPoly K :=
  let dmax := maxDeg - 1
  (List.range maxDeg).foldl (fun R dres =>
    let dorig := dres + 1
    if dres ≤ dmax ∧ dorig < P.length ∧ anyNZ (P.getD dorig []) then
      let t := polyDiffSched clmo (P.getD dorig []) var dorig (σ (P.getD dorig []).length)
      if dres < R.length ∧ (R.getD dres []).length = t.length then R.set dres t else R
    else R) (polynomialZeroList dmax)

/-- `_polynomial_jacobian`: the six `_polynomial_differentiate` results, in variable order (the `prange` over the six variables only
appends whole results; each call has its own scheduler-independent value) -/
def polynomialJacobian (clmo : List (List Nat)) (σ : Nat → List (List Nat)) (P : GPoly K) (maxDeg : Nat) : List (GPoly K) :=
  (List.range 6).map fun v => polynomialDifferentiate clmo σ P v maxDeg

/-- `_polynomial_degree`: the highest index whose block has a non-zero coefficient, `-1` for the zero polynomial / the empty list -/
def polynomialDegree (P : GPoly K) : Int :=
  match (List.range P.length).reverse.find? fun d => anyNZ (P.getD d []) with
  | some d => (d : Int)
  | none => -1

/-- `_get_degree(p, psi)`: the first `d ≤ D` (`D + 1` = number of columns of the psi table) with `psi[6, d] = len(p)`, `-1` if none
(the empty array is rejected first) -/
def getDegree (D : Nat) (p : List K) : Int :=
  if p.length = 0 then -1 else
  match (List.range (D + 1)).find? fun d => psi 6 d == p.length with
  | some d => (d : Int)
  | none => -1

/-- `_polynomial_total_degree(p, psi)`: like `_polynomial_degree`, but a block only counts when its length is the length of its index
(`_get_degree(block) = index`); empty blocks are skipped -/
def polynomialTotalDegree (D : Nat) (P : GPoly K) : Int :=
  (List.range P.length).foldl (fun best d =>
    let b := P.getD d []
    if b.length = 0 then best
    else if getDegree D b ≠ (d : Int) then best
    else if anyNZ b then max best (d : Int) else best) (-1)

/-- `_polynomial_integrate` -/
def polynomialIntegrate [Div K] (clmo : List (List Nat)) (P : GPoly K) (var maxDeg : Nat) : GPoly K :=
  (List.range (maxDeg + 1)).foldl (fun R dorig =>
    let dres := dorig + 1
    if dorig < P.length ∧ anyNZ (P.getD dorig []) then
      let t := polyIntegrate clmo (P.getD dorig []) var dorig
      if dres < R.length ∧ (R.getD dres []).length = t.length then R.set dres (polyAdd (R.getD dres []) t) else R
    else R) (polynomialZeroList (maxDeg + 1))

/-- `_polynomial_evaluate` -/
def polynomialEvaluate (clmo : List (List Nat)) (P : GPoly K) (point : List K) : K :=
  (List.range P.length).foldl (fun s d =>
    let b := P.getD d []
    if b.length > 0 then s + polyEvaluate clmo b d point else s) 0

/-- `_linear_variable_polys(C, …)`: `L[i] = Σ_j C[i][j] · x_j` -/
def linearVariablePolys [Sub K] [Neg K] (clmo : List (List Nat)) (C : List (List K)) (maxDeg : Nat) : List (GPoly K) :=
  (List.range 6).map fun i =>
    (List.range 6).foldl (fun acc j =>
      let cij := (C.getD i []).getD j 0
      if cij = 0 then acc else polynomialAddInplace acc (polynomialVariable clmo j maxDeg) cij maxDeg) (polynomialZeroList maxDeg)

/-- `_linear_affine_variable_polys` -/
def affineVariablePolys [Sub K] [Neg K] (clmo : List (List Nat)) (C : List (List K)) (shifts : List K) (maxDeg : Nat) : List (GPoly K) :=
  let L := linearVariablePolys clmo C maxDeg
  (List.range 6).map fun i =>
    let Li := L.getD i []
    let δ := shifts.getD i 0
    if δ = 0 then Li
    else if Li.length > 0 ∧ (Li.getD 0 []).length > 0 then Li.set 0 (addAt (Li.getD 0 []) 0 δ) else Li

/-- `_polynomial_clean(p, tol)`; `small c` models `abs(c) <= tol` -/
def polynomialClean (small : K → Bool) (P : GPoly K) : GPoly K :=
  P.map fun b => b.map fun c => if small c then 0 else c

/-- the term loop shared by `_substitute_linear` / `_substitute_affine` -/
def substituteWith [Sub K] [Neg K] (clmo : List (List Nat)) (σ : Nat → List (List Nat)) (small : K → Bool) (varPolys : List (GPoly K))
    (P : GPoly K) (maxDeg : Nat) : GPoly K :=
  let polyNew := (List.range (maxDeg + 1)).foldl (fun acc deg =>
    let p := P.getD deg []
    if !anyNZ p then acc else
    (List.range p.length).foldl (fun acc pos =>
      let coeff := p.getD pos 0
      if coeff = 0 then acc else
      let k := decode clmo pos deg
      let z : GPoly K := polynomialZeroList maxDeg
      let term0 : GPoly K := if (z.getD 0 []).length > 0 then z.set 0 ((z.getD 0 []).set 0 coeff) else z
      let term := (List.range 6).foldl (fun term iv =>
        let e := k.getD iv 0
        if e = 0 then term else
        polynomialMultiply clmo σ term (polynomialPower clmo σ (varPolys.getD iv []) e maxDeg) maxDeg) term0
      polynomialAddInplace acc term 1 maxDeg) acc) (polynomialZeroList maxDeg)
  polynomialClean small polyNew

def substituteLinear [Sub K] [Neg K] (clmo : List (List Nat)) (σ : Nat → List (List Nat)) (small : K → Bool) (P : GPoly K) (C : List (List K))
    (maxDeg : Nat) : GPoly K :=
  substituteWith clmo σ small (linearVariablePolys clmo C maxDeg) P maxDeg

def substituteAffine [Sub K] [Neg K] (clmo : List (List Nat)) (σ : Nat → List (List Nat)) (small : K → Bool) (P : GPoly K) (C : List (List K))
    (shifts : List K) (maxDeg : Nat) : GPoly K :=
  substituteWith clmo σ small (affineVariablePolys clmo C shifts maxDeg) P maxDeg

end

end HitenModel.C06
