import HitenModel.Core.C08
