/-
  Lemmas/C19.lean — helper lemmas for the connections model (Core/C19.lean, Gen/C19.lean).
-/
import HitenModel.Core.C19
import HitenModel.Gen.C19
import Mathlib.Algebra.Order.Field.Basic
import Mathlib.Tactic.Linarith
import Mathlib.Tactic.Ring
import Mathlib.Tactic.FieldSimp
import Mathlib.Tactic.Positivity
import Mathlib.Tactic.SplitIfs
import Mathlib.Data.List.Basic
import Mathlib.Data.List.Perm.Basic
import Mathlib.Data.List.Nodup

namespace HitenModel.C19

section closest
variable {K : Type} [Field K] [LinearOrder K] [IsStrictOrderedRing K]

/-- first-order optimality of `x ∈ [0,1]` for a function with derivative `g` at `x` -/
def KKT1 (x g : K) : Prop := 0 ≤ x ∧ x ≤ 1 ∧ (0 < x → g ≤ 0) ∧ (x < 1 → 0 ≤ g)

/-- KKT conditions of `f(s,t) = A s² − 2 B s t + C t² + 2 D s − 2 E t` on the unit square -/
def KKT (A B C D E : K) (st : K × K) : Prop :=
  KKT1 st.1 (A * st.1 - B * st.2 + D) ∧ KKT1 st.2 (C * st.2 - B * st.1 - E)

theorem clamp01_mem (x : K) : 0 ≤ clamp01 x ∧ clamp01 x ≤ 1 := by
  unfold clamp01
  split_ifs with h1 h2
  · exact ⟨le_refl _, zero_le_one⟩
  · exact ⟨zero_le_one, le_refl _⟩
  · exact ⟨not_lt.mp h1, not_lt.mp h2⟩

/-- the clamped stationary point of `a x² + 2 b x` (`a > 0`) satisfies the 1-D KKT conditions -/
theorem clamp01_kkt {a b : K} (ha : 0 < a) : KKT1 (clamp01 (-b / a)) (a * clamp01 (-b / a) + b) := by
  have hx : a * (-b / a) = -b := by field_simp
  unfold clamp01
  split_ifs with h1 h2
  · refine ⟨le_refl _, zero_le_one, fun h => absurd h (lt_irrefl _), fun _ => ?_⟩
    have : a * (-b / a) < 0 := mul_neg_of_pos_of_neg ha h1
    linarith
  · refine ⟨zero_le_one, le_refl _, fun _ => ?_, fun h => absurd h (lt_irrefl _)⟩
    have : a * 1 < a * (-b / a) := mul_lt_mul_of_pos_left h2 ha
    linarith
  · exact ⟨not_lt.mp h1, not_lt.mp h2, fun _ => by linarith, fun _ => by linarith⟩

/-- key inequality of the "clamp t, recompute s" step.  `G1 = den·s1 + C·D − B·E` is (C times) the derivative at `s1`
of the partially minimised function `h(s) = min_t f(s,t)`; `s2` is optimal on the edge `t = 0`. -/
theorem edge_lemma {A B C D E s1 s2 : K} (hC : 0 < C) (hden : 0 ≤ A * C - B * B)
    (h1 : KKT1 s1 ((A * C - B * B) * s1 + C * D - B * E))
    (hq : B * s1 + E < 0)
    (h2 : KKT1 s2 (A * s2 + D)) : B * s2 + E ≤ 0 := by
  by_contra hcon
  have hw : 0 < B * s2 + E := not_le.mp hcon
  obtain ⟨h10, h11, h1p, h1n⟩ := h1
  obtain ⟨h20, h21, h2p, h2n⟩ := h2
  -- G1 = C·r − B·w − den·δ with r = A s2 + D, w = B s2 + E, δ = s2 − s1
  have key : (A * C - B * B) * s1 + C * D - B * E
      = C * (A * s2 + D) - B * (B * s2 + E) - (A * C - B * B) * (s2 - s1) := by ring
  have hBd : 0 < B * (s2 - s1) := by nlinarith
  rcases lt_trichotomy B 0 with hB | hB | hB
  · have hd : s2 - s1 < 0 := by
      by_contra h
      have : B * (s2 - s1) ≤ 0 := mul_nonpos_of_nonpos_of_nonneg hB.le (not_lt.mp h)
      linarith
    have hs1 : 0 < s1 := by linarith
    have hs2 : s2 < 1 := by linarith
    have hG := h1p hs1
    have hr := h2n hs2
    have e1 : 0 ≤ C * (A * s2 + D) := mul_nonneg hC.le hr
    have e2 : 0 < -B * (B * s2 + E) := mul_pos (by linarith) hw
    have e3 : 0 ≤ (A * C - B * B) * (s1 - s2) := mul_nonneg hden (by linarith)
    nlinarith
  · subst hB; simp at hBd
  · have hd : 0 < s2 - s1 := by
      by_contra h
      have : B * (s2 - s1) ≤ 0 := mul_nonpos_of_nonneg_of_nonpos hB.le (not_lt.mp h)
      linarith
    have hs1 : s1 < 1 := by linarith
    have hs2 : 0 < s2 := by linarith
    have hG := h1n hs1
    have hr := h2p hs2
    have e1 : C * (A * s2 + D) ≤ 0 := mul_nonpos_of_nonneg_of_nonpos hC.le hr
    have e2 : 0 < B * (B * s2 + E) := mul_pos hB hw
    have e3 : 0 ≤ (A * C - B * B) * (s2 - s1) := mul_nonneg hden hd.le
    nlinarith

theorem KKT1_zero_zero : KKT1 (0 : K) 0 :=
  ⟨le_refl _, zero_le_one, fun _ => le_refl _, fun _ => le_refl _⟩

/-- last stage of the routine for two non-degenerate segments: from an `s1` that is optimal for the partially
minimised problem, `t1 = (B s1 + E)/C` is clamped and `s` recomputed on the clamped edge. -/
theorem stage_final {A B C D E s1 : K} (hA : 0 < A) (hC : 0 < C) (hden : 0 ≤ A * C - B * B)
    (h1 : KKT1 s1 ((A * C - B * B) * s1 + C * D - B * E)) :
    KKT A B C D E
      (if (B * s1 + E) / C < 0 then (clamp01 (-D / A), 0)
       else if (B * s1 + E) / C > 1 then (clamp01 ((B - D) / A), 1)
       else (s1, (B * s1 + E) / C)) := by
  split_ifs with ht0 ht1
  · have hq : B * s1 + E < 0 := by
      by_contra h
      exact absurd ht0 (not_lt.mpr (div_nonneg (not_lt.mp h) hC.le))
    have h2 : KKT1 (clamp01 (-D / A)) (A * clamp01 (-D / A) + D) := clamp01_kkt hA
    have hw := edge_lemma hC hden h1 hq h2
    refine ⟨?_, ?_⟩
    · show KKT1 (clamp01 (-D / A)) (A * clamp01 (-D / A) - B * 0 + D)
      have : A * clamp01 (-D / A) - B * 0 + D = A * clamp01 (-D / A) + D := by ring
      rw [this]; exact h2
    · show KKT1 (0 : K) (C * 0 - B * clamp01 (-D / A) - E)
      exact ⟨le_refl _, zero_le_one, fun h => absurd h (lt_irrefl _), fun _ => by linarith⟩
  · have hq : -B * s1 + (C - E) < 0 := by
      have : 1 * C < (B * s1 + E) / C * C := mul_lt_mul_of_pos_right ht1 hC
      rw [div_mul_cancel₀ _ hC.ne'] at this
      linarith
    have h2 : KKT1 (clamp01 (-(D - B) / A)) (A * clamp01 (-(D - B) / A) + (D - B)) := clamp01_kkt hA
    have hden' : 0 ≤ A * C - -B * -B := by
      have : A * C - -B * -B = A * C - B * B := by ring
      rw [this]; exact hden
    have h1' : KKT1 s1 ((A * C - -B * -B) * s1 + C * (D - B) - -B * (C - E)) := by
      have : (A * C - -B * -B) * s1 + C * (D - B) - -B * (C - E) = (A * C - B * B) * s1 + C * D - B * E := by ring
      rw [this]; exact h1
    have hw := edge_lemma hC hden' h1' hq h2
    have hbd : -(D - B) / A = (B - D) / A := by rw [neg_sub]
    rw [hbd] at h2 hw
    refine ⟨?_, ?_⟩
    · show KKT1 (clamp01 ((B - D) / A)) (A * clamp01 ((B - D) / A) - B * 1 + D)
      have : A * clamp01 ((B - D) / A) - B * 1 + D = A * clamp01 ((B - D) / A) + (D - B) := by ring
      rw [this]; exact h2
    · show KKT1 (1 : K) (C * 1 - B * clamp01 ((B - D) / A) - E)
      exact ⟨zero_le_one, le_refl _, fun _ => by linarith, fun h => absurd h (lt_irrefl _)⟩
  · obtain ⟨h10, h11, h1p, h1n⟩ := h1
    have hCt : C * ((B * s1 + E) / C) = B * s1 + E := by field_simp
    have hgs : A * s1 - B * ((B * s1 + E) / C) + D = ((A * C - B * B) * s1 + C * D - B * E) / C := by
      field_simp; ring
    refine ⟨?_, ?_⟩
    · show KKT1 s1 (A * s1 - B * ((B * s1 + E) / C) + D)
      rw [hgs]
      exact ⟨h10, h11, fun h => div_nonpos_of_nonpos_of_nonneg (h1p h) hC.le, fun h => div_nonneg (h1n h) hC.le⟩
    · show KKT1 ((B * s1 + E) / C) (C * ((B * s1 + E) / C) - B * s1 - E)
      have : C * ((B * s1 + E) / C) - B * s1 - E = 0 := by rw [hCt]; ring
      rw [this]
      exact ⟨not_lt.mp ht0, not_lt.mp ht1, fun _ => le_refl _, fun _ => le_refl _⟩

theorem finalStage_pos {A B D : K} (hA : 0 < A) (s1 t1 : K) :
    finalStage A B D (s1, t1) =
      (if t1 < 0 then (clamp01 (-D / A), 0) else if t1 > 1 then (clamp01 ((B - D) / A), 1) else (s1, t1)) := by
  simp only [finalStage, gt_iff_lt, hA, if_true]

theorem midStage_pos {B C E : K} (hC : 0 < C) (s0 t0 : K) (ht : t0 = (B * s0 + E) / C) :
    midStage B C E (s0, t0) = (clamp01 s0, (B * clamp01 s0 + E) / C) := by
  simp only [midStage, clamp01, gt_iff_lt, hC, if_true]
  split_ifs with h1 h2
  · simp
  · simp [add_comm]
  · rw [ht]

/-- abstract form of the optimality theorem: under the Gram-matrix facts about the five dot products the routine
returns a KKT point of the distance function on the unit square -/
theorem closestST_kkt {A B C D E : K} (hA : 0 ≤ A) (hC : 0 ≤ C) (hden : 0 ≤ A * C - B * B)
    (hA0 : A = 0 → B = 0 ∧ D = 0) (hC0 : C = 0 → B = 0 ∧ E = 0)
    (hpar : A * C - B * B = 0 → C * D = B * E) :
    KKT A B C D E (closestST A B C D E) := by
  unfold closestST
  rcases hA.eq_or_lt with hA' | hA'
  · -- first segment is a point
    obtain ⟨hB, hD⟩ := hA0 hA'.symm
    subst hB hD
    rw [← hA']
    rcases hC.eq_or_lt with hC' | hC'
    · obtain ⟨_, hE⟩ := hC0 hC'.symm
      subst hE
      rw [← hC']
      have h10 : ¬ (1 : K) < 0 := not_lt.mpr zero_le_one
      simp [firstStage, midStage, finalStage, KKT, KKT1_zero_zero, h10]
    · have hf : firstStage 0 0 C 0 E = (0, E / C) := by
        simp [firstStage, hC']
      have hm : midStage 0 C E (0, E / C) = (0, E / C) := by
        simp [midStage]
      have hfin : finalStage (0 : K) 0 0 (0, E / C) = (0, clamp01 (- -E / C)) := by
        simp only [finalStage, clamp01, gt_iff_lt, lt_irrefl, if_false, neg_neg]
        split_ifs <;> rfl
      rw [hf, hm, hfin]
      have h2 : KKT1 (clamp01 (- -E / C)) (C * clamp01 (- -E / C) + -E) := clamp01_kkt hC'
      refine ⟨?_, ?_⟩
      · show KKT1 (0 : K) (0 * 0 - 0 * clamp01 (- -E / C) + 0)
        have : (0 : K) * 0 - 0 * clamp01 (- -E / C) + 0 = 0 := by ring
        rw [this]; exact KKT1_zero_zero
      · show KKT1 (clamp01 (- -E / C)) (C * clamp01 (- -E / C) - 0 * 0 - E)
        have : C * clamp01 (- -E / C) - 0 * 0 - E = C * clamp01 (- -E / C) + -E := by ring
        rw [this]; exact h2
  · rcases hC.eq_or_lt with hC' | hC'
    · -- second segment is a point
      obtain ⟨hB, hE⟩ := hC0 hC'.symm
      subst hB hE
      rw [← hC']
      have hf : firstStage A 0 0 D 0 = (-D / A, 0) := by
        simp [firstStage, hA']
      have hm : midStage (0 : K) 0 0 (-D / A, 0) = (clamp01 (-D / A), 0) := by
        simp only [midStage, clamp01, gt_iff_lt, lt_irrefl, if_false]
        split_ifs <;> rfl
      have hfin : finalStage A 0 D (clamp01 (-D / A), 0) = (clamp01 (-D / A), 0) := by
        simp [finalStage]
      rw [hf, hm, hfin]
      have h2 : KKT1 (clamp01 (-D / A)) (A * clamp01 (-D / A) + D) := clamp01_kkt hA'
      refine ⟨?_, ?_⟩
      · show KKT1 (clamp01 (-D / A)) (A * clamp01 (-D / A) - 0 * 0 + D)
        have : A * clamp01 (-D / A) - 0 * 0 + D = A * clamp01 (-D / A) + D := by ring
        rw [this]; exact h2
      · show KKT1 (0 : K) (0 * 0 - 0 * clamp01 (-D / A) - 0)
        have : (0 : K) * 0 - 0 * clamp01 (-D / A) - 0 = 0 := by ring
        rw [this]; exact KKT1_zero_zero
    · -- both segments are proper
      rcases hden.eq_or_lt with hd | hd
      · -- parallel
        have hcd := hpar hd.symm
        have hf : firstStage A B C D E = (0, E / C) := by
          simp [firstStage, ← hd, hC']
        have hm : midStage B C E (0, E / C) = (clamp01 0, (B * clamp01 0 + E) / C) :=
          midStage_pos hC' 0 (E / C) (by simp)
        have hc0 : clamp01 (0 : K) = 0 := by simp [clamp01]
        rw [hf, hm, hc0, finalStage_pos hA']
        apply stage_final hA' hC' hden
        have : (A * C - B * B) * 0 + C * D - B * E = 0 := by rw [hcd]; ring
        rw [this]; exact KKT1_zero_zero
      · -- general position
        have hf : firstStage A B C D E = ((B * E - C * D) / (A * C - B * B), (B * ((B * E - C * D) / (A * C - B * B)) + E) / C) := by
          simp [firstStage, hd]
        rw [hf, midStage_pos hC' _ _ rfl, finalStage_pos hA']
        apply stage_final hA' hC' hden
        have h2 : KKT1 (clamp01 (-(C * D - B * E) / (A * C - B * B)))
            ((A * C - B * B) * clamp01 (-(C * D - B * E) / (A * C - B * B)) + (C * D - B * E)) := clamp01_kkt hd
        have hneg : -(C * D - B * E) = B * E - C * D := by ring
        rw [hneg] at h2
        have : (A * C - B * B) * clamp01 ((B * E - C * D) / (A * C - B * B)) + C * D - B * E
            = (A * C - B * B) * clamp01 ((B * E - C * D) / (A * C - B * B)) + (C * D - B * E) := by ring
        rw [this]; exact h2

/-- the convexity argument: a KKT point of the convex quadratic is a global minimiser on the unit square -/
theorem kkt_min {A B C D E : K} (hQ : ∀ x y : K, 0 ≤ A * x * x - (B + B) * x * y + C * y * y) {st : K × K}
    (h : KKT A B C D E st) {s' t' : K} (hs0 : 0 ≤ s') (hs1 : s' ≤ 1) (ht0 : 0 ≤ t') (ht1 : t' ≤ 1) :
    A * st.1 * st.1 - (B + B) * st.1 * st.2 + C * st.2 * st.2 + (D + D) * st.1 - (E + E) * st.2
      ≤ A * s' * s' - (B + B) * s' * t' + C * t' * t' + (D + D) * s' - (E + E) * t' := by
  obtain ⟨⟨a0, a1, ap, an⟩, ⟨b0, b1, bp, bn⟩⟩ := h
  set s := st.1
  set t := st.2
  have hq := hQ (s' - s) (t' - t)
  have g1 : 0 ≤ (A * s - B * t + D) * (s' - s) := by
    rcases a0.eq_or_lt with h0 | h0
    · have : s < 1 := by rw [← h0]; exact zero_lt_one
      exact mul_nonneg (an this) (by linarith)
    · rcases a1.eq_or_lt with h1 | h1
      · exact mul_nonneg_of_nonpos_of_nonpos (ap h0) (by linarith)
      · have : A * s - B * t + D = 0 := le_antisymm (ap h0) (an h1)
        rw [this]; simp
  have g2 : 0 ≤ (C * t - B * s - E) * (t' - t) := by
    rcases b0.eq_or_lt with h0 | h0
    · have : t < 1 := by rw [← h0]; exact zero_lt_one
      exact mul_nonneg (bn this) (by linarith)
    · rcases b1.eq_or_lt with h1 | h1
      · exact mul_nonneg_of_nonpos_of_nonpos (bp h0) (by linarith)
      · have : C * t - B * s - E = 0 := le_antisymm (bp h0) (bn h1)
        rw [this]; simp
  nlinarith

theorem gram_den_eq (ux uy vx vy : K) :
    (ux * ux + uy * uy) * (vx * vx + vy * vy) - (ux * vx + uy * vy) * (ux * vx + uy * vy)
      = (ux * vy - uy * vx) * (ux * vy - uy * vx) := by ring

/-- Cauchy–Schwarz: `den = A·C − B² ≥ 0` -/
theorem gram_den_nonneg (ux uy vx vy : K) :
    0 ≤ (ux * ux + uy * uy) * (vx * vx + vy * vy) - (ux * vx + uy * vy) * (ux * vx + uy * vy) := by
  rw [gram_den_eq]; exact mul_self_nonneg _

theorem gram_A0 (ux uy vx vy wx wy : K) :
    ux * ux + uy * uy = 0 → ux * vx + uy * vy = 0 ∧ ux * wx + uy * wy = 0 := by
  intro h
  obtain ⟨h1, h2⟩ := (mul_self_add_mul_self_eq_zero).mp h
  subst h1 h2
  constructor <;> ring

theorem gram_C0 (ux uy vx vy wx wy : K) :
    vx * vx + vy * vy = 0 → ux * vx + uy * vy = 0 ∧ vx * wx + vy * wy = 0 := by
  intro h
  obtain ⟨h1, h2⟩ := (mul_self_add_mul_self_eq_zero).mp h
  subst h1 h2
  constructor <;> ring

/-- parallel segments (`den = 0`): `C·D = B·E` (Binet–Cauchy) -/
theorem gram_par (ux uy vx vy wx wy : K) :
    (ux * ux + uy * uy) * (vx * vx + vy * vy) - (ux * vx + uy * vy) * (ux * vx + uy * vy) = 0 →
      (vx * vx + vy * vy) * (ux * wx + uy * wy) = (ux * vx + uy * vy) * (vx * wx + vy * wy) := by
  intro h
  rw [gram_den_eq] at h
  have hc : ux * vy - uy * vx = 0 := mul_self_eq_zero.mp h
  have : (vx * vx + vy * vy) * (ux * wx + uy * wy) - (ux * vx + uy * vy) * (vx * wx + vy * wy)
      = (ux * vy - uy * vx) * (vy * wx - vx * wy) := by ring
  rw [hc, zero_mul] at this
  exact sub_eq_zero.mp this

/-- point of the segment `a0 → a1` at parameter `s` -/
def segPt (a0 a1 : Pt K) (s : K) : Pt K := (a0.1 + s * (a1.1 - a0.1), a0.2 + s * (a1.2 - a0.2))

/-- geometric form: `closestCore` returns parameters in `[0,1]`, the points they denote, and these points minimise the
distance between the two closed segments — for every pair of segments (general, parallel, collinear, degenerate) -/
theorem closestCore_spec (a0x a0y a1x a1y b0x b0y b1x b1y : K) :
    (0 ≤ (closestCore a0x a0y a1x a1y b0x b0y b1x b1y).1 ∧ (closestCore a0x a0y a1x a1y b0x b0y b1x b1y).1 ≤ 1 ∧
      0 ≤ (closestCore a0x a0y a1x a1y b0x b0y b1x b1y).2.1 ∧ (closestCore a0x a0y a1x a1y b0x b0y b1x b1y).2.1 ≤ 1) ∧
    ((closestCore a0x a0y a1x a1y b0x b0y b1x b1y).2.2.1, (closestCore a0x a0y a1x a1y b0x b0y b1x b1y).2.2.2.1)
      = segPt (a0x, a0y) (a1x, a1y) (closestCore a0x a0y a1x a1y b0x b0y b1x b1y).1 ∧
    ((closestCore a0x a0y a1x a1y b0x b0y b1x b1y).2.2.2.2.1, (closestCore a0x a0y a1x a1y b0x b0y b1x b1y).2.2.2.2.2)
      = segPt (b0x, b0y) (b1x, b1y) (closestCore a0x a0y a1x a1y b0x b0y b1x b1y).2.1 ∧
    ∀ s' t' : K, 0 ≤ s' → s' ≤ 1 → 0 ≤ t' → t' ≤ 1 →
      d2 (segPt (a0x, a0y) (a1x, a1y) (closestCore a0x a0y a1x a1y b0x b0y b1x b1y).1)
         (segPt (b0x, b0y) (b1x, b1y) (closestCore a0x a0y a1x a1y b0x b0y b1x b1y).2.1)
        ≤ d2 (segPt (a0x, a0y) (a1x, a1y) s') (segPt (b0x, b0y) (b1x, b1y) t') := by
  simp only [closestCore, segPt]
  generalize hux : a1x - a0x = ux
  generalize huy : a1y - a0y = uy
  generalize hvx : b1x - b0x = vx
  generalize hvy : b1y - b0y = vy
  generalize hwx : a0x - b0x = wx
  generalize hwy : a0y - b0y = wy
  have hA : 0 ≤ ux * ux + uy * uy := add_nonneg (mul_self_nonneg _) (mul_self_nonneg _)
  have hC : 0 ≤ vx * vx + vy * vy := add_nonneg (mul_self_nonneg _) (mul_self_nonneg _)
  have hdeneq : (ux * ux + uy * uy) * (vx * vx + vy * vy) - (ux * vx + uy * vy) * (ux * vx + uy * vy)
      = (ux * vy - uy * vx) * (ux * vy - uy * vx) := by ring
  have hden : 0 ≤ (ux * ux + uy * uy) * (vx * vx + vy * vy) - (ux * vx + uy * vy) * (ux * vx + uy * vy) := by
    rw [hdeneq]; exact mul_self_nonneg _
  have hA0 : ux * ux + uy * uy = 0 → ux * vx + uy * vy = 0 ∧ ux * wx + uy * wy = 0 := by
    intro h
    obtain ⟨h1, h2⟩ := (mul_self_add_mul_self_eq_zero).mp h
    subst h1 h2
    constructor <;> ring
  have hC0 : vx * vx + vy * vy = 0 → ux * vx + uy * vy = 0 ∧ vx * wx + vy * wy = 0 := by
    intro h
    obtain ⟨h1, h2⟩ := (mul_self_add_mul_self_eq_zero).mp h
    subst h1 h2
    constructor <;> ring
  have hpar : (ux * ux + uy * uy) * (vx * vx + vy * vy) - (ux * vx + uy * vy) * (ux * vx + uy * vy) = 0 →
      (vx * vx + vy * vy) * (ux * wx + uy * wy) = (ux * vx + uy * vy) * (vx * wx + vy * wy) := by
    intro h
    rw [hdeneq] at h
    have hc : ux * vy - uy * vx = 0 := mul_self_eq_zero.mp h
    have : (vx * vx + vy * vy) * (ux * wx + uy * wy) - (ux * vx + uy * vy) * (vx * wx + vy * wy)
        = (ux * vy - uy * vx) * (vy * wx - vx * wy) := by ring
    rw [hc, zero_mul] at this
    exact sub_eq_zero.mp this
  have hQ : ∀ x y : K, 0 ≤ (ux * ux + uy * uy) * x * x - ((ux * vx + uy * vy) + (ux * vx + uy * vy)) * x * y
      + (vx * vx + vy * vy) * y * y := by
    intro x y
    have : (ux * ux + uy * uy) * x * x - ((ux * vx + uy * vy) + (ux * vx + uy * vy)) * x * y + (vx * vx + vy * vy) * y * y
        = (x * ux - y * vx) * (x * ux - y * vx) + (x * uy - y * vy) * (x * uy - y * vy) := by ring
    rw [this]
    exact add_nonneg (mul_self_nonneg _) (mul_self_nonneg _)
  have hk := closestST_kkt hA hC hden hA0 hC0 hpar
  generalize closestST (ux * ux + uy * uy) (ux * vx + uy * vy) (vx * vx + vy * vy) (ux * wx + uy * wy) (vx * wx + vy * wy) = st at hk ⊢
  refine ⟨⟨hk.1.1, hk.1.2.1, hk.2.1, hk.2.2.1⟩, trivial, trivial, ?_⟩
  intro s' t' hs0 hs1 ht0 ht1
  have hm := kkt_min hQ hk hs0 hs1 ht0 ht1
  have hbx : b0x = a0x - wx := by rw [← hwx]; ring
  have hby : b0y = a0y - wy := by rw [← hwy]; ring
  subst hbx hby
  simp only [d2]
  nlinarith [hm]

/-- the `(s,t)` returned by `closestCore` is a KKT point of the squared-distance function of the two segments -/
theorem closestCore_kkt (a0x a0y a1x a1y b0x b0y b1x b1y : K) :
    KKT ((a1x - a0x) * (a1x - a0x) + (a1y - a0y) * (a1y - a0y))
        ((a1x - a0x) * (b1x - b0x) + (a1y - a0y) * (b1y - b0y))
        ((b1x - b0x) * (b1x - b0x) + (b1y - b0y) * (b1y - b0y))
        ((a1x - a0x) * (a0x - b0x) + (a1y - a0y) * (a0y - b0y))
        ((b1x - b0x) * (a0x - b0x) + (b1y - b0y) * (a0y - b0y))
        ((closestCore a0x a0y a1x a1y b0x b0y b1x b1y).1, (closestCore a0x a0y a1x a1y b0x b0y b1x b1y).2.1) := by
  simp only [closestCore]
  generalize a1x - a0x = ux
  generalize a1y - a0y = uy
  generalize b1x - b0x = vx
  generalize b1y - b0y = vy
  generalize a0x - b0x = wx
  generalize a0y - b0y = wy
  exact closestST_kkt (add_nonneg (mul_self_nonneg _) (mul_self_nonneg _)) (add_nonneg (mul_self_nonneg _) (mul_self_nonneg _))
    (gram_den_nonneg ux uy vx vy) (gram_A0 ux uy vx vy wx wy) (gram_C0 ux uy vx vy wx wy) (gram_par ux uy vx vy wx wy)

end closest

/-! ### results: sorting, thresholds -/
section results
variable {K : Type} [Field K] [LinearOrder K] [IsStrictOrderedRing K]

theorem insertConn_perm (x : Conn K) (l : List (Conn K)) : (insertConn x l).Perm (x :: l) := by
  induction l with
  | nil => exact List.Perm.refl _
  | cons y ys ih =>
    unfold insertConn
    split_ifs
    · exact List.Perm.refl _
    · exact (List.Perm.cons y ih).trans (List.Perm.swap x y ys)

theorem foldl_insertConn_perm (l acc : List (Conn K)) :
    (l.foldl (fun acc x => insertConn x acc) acc).Perm (acc ++ l) := by
  induction l generalizing acc with
  | nil => simp
  | cons x xs ih =>
    simp only [List.foldl_cons]
    refine (ih (insertConn x acc)).trans ?_
    refine ((insertConn_perm x acc).append_right xs).trans ?_
    simp only [List.cons_append]
    exact (List.perm_middle (l₁ := acc) (a := x) (l₂ := xs)).symm

theorem sortConns_perm (l : List (Conn K)) : (sortConns l).Perm l := by
  have := foldl_insertConn_perm l []
  simpa [sortConns] using this

theorem insertConn_sorted (x : Conn K) (l : List (Conn K)) (h : l.Pairwise (fun a b => a.dv2 ≤ b.dv2)) :
    (insertConn x l).Pairwise (fun a b => a.dv2 ≤ b.dv2) := by
  induction l with
  | nil => simp [insertConn]
  | cons y ys ih =>
    rw [List.pairwise_cons] at h
    unfold insertConn
    split_ifs with hxy
    · refine List.pairwise_cons.mpr ⟨?_, List.pairwise_cons.mpr h⟩
      intro z hz
      rcases List.mem_cons.mp hz with rfl | hz
      · exact hxy.le
      · exact hxy.le.trans (h.1 z hz)
    · refine List.pairwise_cons.mpr ⟨?_, ih h.2⟩
      intro z hz
      have hz' := (insertConn_perm x ys).mem_iff.mp hz
      rcases List.mem_cons.mp hz' with rfl | hz'
      · exact not_lt.mp hxy
      · exact h.1 z hz'

theorem foldl_insertConn_sorted (l acc : List (Conn K)) (h : acc.Pairwise (fun a b => a.dv2 ≤ b.dv2)) :
    (l.foldl (fun acc x => insertConn x acc) acc).Pairwise (fun a b => a.dv2 ≤ b.dv2) := by
  induction l generalizing acc with
  | nil => simpa using h
  | cons x xs ih => exact ih _ (insertConn_sorted x acc h)

theorem sortConns_sorted (l : List (Conn K)) : (sortConns l).Pairwise (fun a b => a.dv2 ≤ b.dv2) :=
  foldl_insertConn_sorted l [] List.Pairwise.nil

/-- the code's `0.5 * x` -/
theorem half_mul (x : K) : (half : K) * x = x / 2 := by
  unfold half
  rw [one_add_one_eq_two]; ring

theorem leTol_iff (x tol : K) : leTol x tol = true ↔ (0 ≤ tol ∧ x ≤ tol * tol) := by
  simp [leTol]

/-- what `mkConn` guarantees about a connection it reports -/
theorem mkConn_some {Xu Xs : List (List K)} {pu : List (Pt K)} {tu ts : Option (List Nat)} {dvTol balTol : K}
    {ij : Nat × Nat} {r : Refined K} {c : Conn K} (h : mkConn Xu Xs pu tu ts dvTol balTol ij r = some c) :
    c.iu = ij.1 ∧ c.is = ij.2 ∧ c.tu = trajAt tu ij.1 ∧ c.ts = trajAt ts ij.2 ∧
    c.dv2 = sqDiff (vel c.stateU) (vel c.stateS) ∧ leTol c.dv2 dvTol = true ∧ c.ballistic = leTol c.dv2 balTol ∧
    ((r.valid = true ∧ r.u0 ≠ r.u1 ∧ r.s0 ≠ r.s1 ∧ c.seg = some (r.u1, r.s1, r.s, r.t) ∧ c.point = r.point ∧
        c.stateU = lerp r.s (stAt Xu r.u0) (stAt Xu r.u1) ∧ c.stateS = lerp r.t (stAt Xs r.s0) (stAt Xs r.s1)) ∨
     (¬ (r.valid = true ∧ r.u0 ≠ r.u1 ∧ r.s0 ≠ r.s1) ∧ c.seg = none ∧ c.point = ptAt pu ij.1 ∧
        c.stateU = stAt Xu ij.1 ∧ c.stateS = stAt Xs ij.2)) := by
  simp only [mkConn] at h
  split_ifs at h with h1 h2 h3
  · obtain rfl := Option.some.inj h
    exact ⟨rfl, rfl, rfl, rfl, rfl, h2, rfl, Or.inl ⟨h1.1, h1.2.1, h1.2.2, rfl, rfl, rfl, rfl⟩⟩
  · obtain rfl := Option.some.inj h
    exact ⟨rfl, rfl, rfl, rfl, rfl, h3, rfl, Or.inr ⟨h1, rfl, rfl, rfl, rfl⟩⟩

theorem mem_run {closest : ClosestFn K} {maxLen : K} {inp : Input K} {c : Conn K} (h : c ∈ run closest maxLen inp) :
    ∃ ij ∈ mutualPairs inp.pu inp.ps (pairsArr inp),
      mkConn inp.Xu inp.Xs inp.pu inp.tu inp.ts inp.dvTol inp.balTol ij
        (refineOne closest maxLen inp.pu inp.ps (nnAll inp.pu) (nnAll inp.ps) ij) = some c := by
  unfold run at h
  split_ifs at h
  · simp at h
  · have := (sortConns_perm _).mem_iff.mp h
    unfold unsorted at this
    simpa [List.mem_filterMap] using this

end results

end HitenModel.C19
